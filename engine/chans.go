package main

// Go channels as ghost FIFO histories.
//
// Every channel c (a reference, like a map) has
//   CH_tail[c]    how many values were ever handed to c (send positions 0..tail-1)
//   CH_head[c]    how many of them were taken out again      (0 <= head <= tail, tail-head <= cap(c))
//   CH_closed[c]
//   CQ_<T>_<leaf>[c][p]   the value handed over at position p (a history: never overwritten)
// and an immutable capacity chancap(c). The queue is the positions [head, tail). An unbuffered channel has
// tail-head = 0 always: a send and its matching receive move both counters in one step.
//
// SEQUENTIAL functions (no `mode atomic`): the channel is only touched by the function itself, so a blocking
// operation that cannot proceed deadlocks (the path is dropped: partial correctness) and a non-blocking select
// takes `default` exactly when no case is ready. Channels created by the runtime for the caller (time.Timer.C,
// ctx.Done()) are ENVIRONMENT channels: their state is arbitrary at every operation.
//
// ATOMIC functions: before every channel operation every channel's state is havocked (other goroutines send,
// receive, close), constrained only by what no goroutine can undo: counters never decrease, a closed channel
// stays closed, history positions below tail keep their value. A send/receive/close that completes is an
// action in the action log (ChanSend / ChanRecv / ChanRecvClosed / ChanClose), so contracts can say how many
// values were handed over or taken and which.
//
// A send on a closed channel panics (obligation `send-on-closed`, or a permitted panic path when the contract
// says `opt sendclosed panic`, in which case the on_panic clauses are checked there); close of a closed or nil
// channel panics likewise (`close-of-closed`, `close-of-nil`).

import (
	"fmt"
	"go/types"
	"sort"
	"strings"

	"golang.org/x/tools/go/ssa"
)

const (
	chBitRecv  = 1
	chBitSend  = 2
	chBitClose = 4
)

func (e *Engine) chanHeap(st *State, key string, sort Sort) Term {
	if st.chanHeap == nil {
		st.chanHeap = map[string]Term{}
	}
	if t, ok := st.chanHeap[key]; ok {
		return t
	}
	t := e.ctx.Const(key+"_0", sort)
	st.chanHeap[key] = t
	return t
}

func (e *Engine) setChanHeap(st *State, key string, t Term) {
	n := make(map[string]Term, len(st.chanHeap)+1)
	for k, v := range st.chanHeap {
		n[k] = v
	}
	n[key] = t
	st.chanHeap = n
}

func (e *Engine) chHeadArr(st *State) Term   { return e.chanHeap(st, "CH_head", ArrSort(SInt, SInt)) }
func (e *Engine) chTailArr(st *State) Term   { return e.chanHeap(st, "CH_tail", ArrSort(SInt, SInt)) }
func (e *Engine) chClosedArr(st *State) Term { return e.chanHeap(st, "CH_closed", ArrSort(SInt, SBool)) }
func (e *Engine) chHead(st *State, c Term) Term   { return Select(e.chHeadArr(st), c) }
func (e *Engine) chTail(st *State, c Term) Term   { return Select(e.chTailArr(st), c) }
func (e *Engine) chClosed(st *State, c Term) Term { return Select(e.chClosedArr(st), c) }
func (e *Engine) chCap(c Term) Term               { return e.ctx.App("chancap", SInt, c) }
func (e *Engine) chEnv(c Term) Term               { return e.ctx.App("envchan", SBool, c) }

func (e *Engine) chContentKey(elem types.Type, leaf int) string {
	return fmt.Sprintf("CQ_%s_%d", typeKey(elem), leaf)
}

func (e *Engine) chContent(st *State, elem types.Type, leaf int, sort Sort) Term {
	return e.chanHeap(st, e.chContentKey(elem, leaf), ArrSort(SInt, ArrSort(SInt, sort)))
}

// chanAt: the value at history position p of channel c.
func (e *Engine) chanAt(st *State, c Term, elem types.Type, p Term) Val {
	ls := e.lay.Leaves(elem)
	v := Val{T: elem, L: make([]Term, len(ls))}
	for i, lf := range ls {
		v.L[i] = Select(Select(e.chContent(st, elem, i, lf.Sort), c), p)
	}
	return v
}

func chanElem(t types.Type) types.Type {
	if ct, ok := t.Underlying().(*types.Chan); ok {
		return ct.Elem()
	}
	if tp, ok := t.(*types.TypeParam); ok {
		if c := coreOf(tp); c != nil {
			return chanElem(c)
		}
	}
	panic(unsupported("not a channel type: %s", t))
}

// chanWF: what the runtime guarantees about the current state of channel c.
func (e *Engine) chanWF(st *State, c Term) {
	h, t := e.chHead(st, c), e.chTail(st, c)
	st.Assume(And(Le(IntLit(0), h), Le(h, t), Le(Sub(t, h), e.chCap(c)), Le(IntLit(0), e.chCap(c))))
	// the nil channel is never ready and cannot be closed
	st.Assume(Implies(Eq(c, IntLit(0)), And(Eq(h, t), Not(e.chClosed(st, c)))))
}

// chanInterfere: what other goroutines (atomic mode) or the runtime (environment channels) may have done.
func (e *Engine) chanInterfere(st *State, cs []Term) {
	if e.atomicMode() {
		oldH, oldT, oldC := e.chHeadArr(st), e.chTailArr(st), e.chClosedArr(st)
		nh := e.ctx.Fresh("CH_head_if", oldH.Sort)
		nt := e.ctx.Fresh("CH_tail_if", oldT.Sort)
		nc := e.ctx.Fresh("CH_closed_if", oldC.Sort)
		e.setChanHeap(st, "CH_head", nh)
		e.setChanHeap(st, "CH_tail", nt)
		e.setChanHeap(st, "CH_closed", nc)
		st.Assume(T(SBool, "(forall ((q_c Int)) (! (and (<= (select %s q_c) (select %s q_c)) (<= (select %s q_c) (select %s q_c)) (=> (select %s q_c) (select %s q_c))) :pattern ((select %s q_c)) :pattern ((select %s q_c)) :pattern ((select %s q_c))))",
			oldH.S, nh.S, oldT.S, nt.S, oldC.S, nc.S, nh.S, nt.S, nc.S))
		e.ownedChannelsStable(st, oldC, nc)
		var keys []string
		for k := range st.chanHeap {
			if strings.HasPrefix(k, "CQ_") {
				keys = append(keys, k)
			}
		}
		sort.Strings(keys)
		for _, k := range keys {
			old := st.chanHeap[k]
			nw := e.ctx.Fresh(k+"_if", old.Sort)
			e.setChanHeap(st, k, nw)
			st.Assume(T(SBool, "(forall ((q_c Int) (q_p Int)) (! (=> (and (<= 0 q_p) (< q_p (select %s q_c))) (= (select (select %s q_c) q_p) (select (select %s q_c) q_p))) :pattern ((select (select %s q_c) q_p))))",
				oldT.S, nw.S, old.S, nw.S))
		}
	} else {
		for _, c := range cs {
			env := e.chEnv(c)
			oh, ot, oc := e.chHead(st, c), e.chTail(st, c), e.chClosed(st, c)
			fh, ft, fc := e.ctx.Fresh("envch_head", SInt), e.ctx.Fresh("envch_tail", SInt), e.ctx.Fresh("envch_closed", SBool)
			st.Assume(Implies(env, And(Le(oh, fh), Le(ot, ft), Implies(oc, fc))))
			e.setChanHeap(st, "CH_head", Store(e.chHeadArr(st), c, Ite(env, fh, oh)))
			e.setChanHeap(st, "CH_tail", Store(e.chTailArr(st), c, Ite(env, ft, ot)))
			e.setChanHeap(st, "CH_closed", Store(e.chClosedArr(st), c, Ite(env, fc, oc)))
		}
	}
	for _, c := range cs {
		e.chanWF(st, c)
	}
}

// peerReady: in atomic mode another goroutine may be blocked on the other end of the channel right now.
func (e *Engine) peerReady(hint string) Term {
	if e.atomicMode() {
		return e.ctx.Fresh(hint, SBool)
	}
	return False
}

func (e *Engine) makeChan(st *State, fr *Frame, x *ssa.MakeChan) Val {
	size := e.operand(st, fr, x.Size)
	sz := e.toInt(size)
	e.obligationPanic(st, "makechan", posOf(fr.fn, x.Pos()), Le(IntLit(0), sz))
	ref := st.next
	st.next = e.nameTerm(st, "next", Add(st.next, IntLit(1)))
	e.setChanHeap(st, "CH_head", Store(e.chHeadArr(st), ref, IntLit(0)))
	e.setChanHeap(st, "CH_tail", Store(e.chTailArr(st), ref, IntLit(0)))
	e.setChanHeap(st, "CH_closed", Store(e.chClosedArr(st), ref, False))
	st.Assume(Eq(e.chCap(ref), sz))
	st.Assume(Not(e.chEnv(ref)))
	if e.rootC != nil && len(e.rootC.Extra["chanowner"]) > 0 {
		if recv, ok := e.params["this"]; ok {
			st.Assume(Eq(e.chOwner(ref), recv.L[0])) // ghost assignment at creation
		}
	}
	return Val{T: resolve(x.Type(), fr.env), L: []Term{ref}}
}

func (e *Engine) toInt(v Val) Term {
	t := v.L[0]
	if t.Sort.IsBV() {
		return e.bvToInt(t, isSignedInt(v.T))
	}
	return t
}

func (e *Engine) chanLen(st *State, c Val) Term {
	return Sub(e.chTail(st, c.L[0]), e.chHead(st, c.L[0]))
}

// sendClosed: the panic of a send on a closed channel.
func (e *Engine) sendClosed(st *State, c Term, pos string) {
	closed := e.chClosed(st, c)
	if e.rootC != nil && len(e.rootC.Extra["sendclosed"]) > 0 && e.rootC.Extra["sendclosed"][0] == "panic" {
		bad := st.Clone()
		bad.Assume(closed)
		bad.path = append(bad.path, "!")
		if !e.infeasibleQuick(bad) {
			e.checkOnPanic(bad)
		}
		st.Assume(Not(closed))
		return
	}
	e.obligationPanic(st, "send-on-closed", pos, Not(closed))
}

func (e *Engine) infeasibleQuick(st *State) bool { return st.dead }

// doSend: the send completes now (the caller has established readiness).
func (e *Engine) doSend(st *State, c Term, v Val, elem types.Type, rendezvous Term) {
	pre := st.Clone()
	tail := e.chTail(st, c)
	for i, lf := range e.lay.Leaves(elem) {
		arr := e.chContent(st, elem, i, lf.Sort)
		e.setChanHeap(st, e.chContentKey(elem, i), Store(arr, c, Store(Select(arr, c), tail, v.L[i])))
	}
	e.setChanHeap(st, "CH_tail", Store(e.chTailArr(st), c, Add(tail, IntLit(1))))
	// handed directly to a waiting receiver
	h := e.chHead(st, c)
	e.setChanHeap(st, "CH_head", Store(e.chHeadArr(st), c, Ite(rendezvous, Add(h, IntLit(1)), h)))
	e.recordAction(st, &Action{Kind: "ChanSend", Obj: c, Args: []Val{v}, Res: []Val{mkInt(tail)}, Pre: pre, Post: st.Clone()})
}

// sendReady: the send can complete now: room in the buffer, or a receiver is waiting (atomic mode only).
func (e *Engine) sendReady(st *State, c Term) (ready Term, rendezvous Term) {
	room := Lt(Sub(e.chTail(st, c), e.chHead(st, c)), e.chCap(c))
	peer := e.peerReady("recv_waiting")
	rendezvous = And(Not(room), peer)
	return And(Not(Eq(c, IntLit(0))), Or(room, peer)), rendezvous
}

func (e *Engine) execSend(st *State, fr *Frame, x *ssa.Send, pos string) {
	cv := e.operand(st, fr, x.Chan)
	v := e.operand(st, fr, x.X)
	c := cv.L[0]
	elem := resolve(chanElem(cv.T), fr.env)
	e.chanInterfere(st, []Term{c})
	e.sendClosed(st, c, pos)
	ready, rv := e.sendReady(st, c)
	st.Assume(ready) // otherwise the goroutine stays blocked
	e.doSend(st, c, e.convertTo(v, elem), elem, rv)
}

func (e *Engine) convertTo(v Val, t types.Type) Val {
	v.T = t
	return v
}

// doRecv: the receive completes now: a queued value, or (zero,false) from a closed and drained channel.
func (e *Engine) doRecv(st *State, c Term, elem types.Type) (Val, Term) {
	pre := st.Clone()
	h, t := e.chHead(st, c), e.chTail(st, c)
	ok := Lt(h, t)
	got := e.chanAt(st, c, elem, h)
	zero := e.zeroVal(elem)
	v := Val{T: elem, L: make([]Term, len(got.L))}
	for i := range got.L {
		v.L[i] = Ite(ok, got.L[i], zero.L[i])
	}
	st.Assume(Implies(ok, e.wellFormed(got, st.next)))
	e.setChanHeap(st, "CH_head", Store(e.chHeadArr(st), c, Ite(ok, Add(h, IntLit(1)), h)))
	e.recordAction(st, &Action{Kind: "ChanRecv", Obj: c, Args: nil, Res: []Val{v, mkBool(ok), mkInt(h)}, Pre: pre, Post: st.Clone()})
	return v, ok
}

func (e *Engine) recvReady(st *State, c Term) Term {
	return And(Not(Eq(c, IntLit(0))), Or(Lt(e.chHead(st, c), e.chTail(st, c)), e.chClosed(st, c)))
}

func (e *Engine) execRecv(st *State, fr *Frame, x *ssa.UnOp, cv Val) {
	c := cv.L[0]
	elem := resolve(chanElem(cv.T), fr.env)
	e.chanInterfere(st, []Term{c})
	st.Assume(e.recvReady(st, c)) // otherwise the goroutine stays blocked
	v, ok := e.doRecv(st, c, elem)
	if x.CommaOk {
		tt := types.NewTuple(types.NewVar(0, nil, "", elem), types.NewVar(0, nil, "", boolT))
		fr.regs[x] = Val{T: tt, L: append(append([]Term{}, v.L...), ok)}
	} else {
		fr.regs[x] = v
	}
}

func (e *Engine) chanClose(st *State, fr *Frame, cv Val, pos string) {
	c := cv.L[0]
	e.obligationPanic(st, "close-of-nil", pos, Not(Eq(c, IntLit(0))))
	e.chanInterfere(st, []Term{c})
	e.obligationPanic(st, "close-of-closed", pos, Not(e.chClosed(st, c)))
	e.closeProtected(st, c, pos)
	pre := st.Clone()
	e.setChanHeap(st, "CH_closed", Store(e.chClosedArr(st), c, True))
	e.recordAction(st, &Action{Kind: "ChanClose", Obj: c, Pre: pre, Post: st.Clone()})
}

// execSelect: exactly one ready case is chosen (any of them); `default` is taken only when none is ready.
func (e *Engine) execSelect(st *State, fr *Frame, x *ssa.Select, k callCont) {
	type cs struct {
		c    Term
		elem types.Type
		v    Val
	}
	var cases []cs
	var chans []Term
	for _, s := range x.States {
		cv := e.operand(st, fr, s.Chan)
		c := cs{c: cv.L[0], elem: resolve(chanElem(cv.T), fr.env)}
		if s.Dir == types.SendOnly {
			c.v = e.convertTo(e.operand(st, fr, s.Send), c.elem)
		}
		cases = append(cases, c)
		chans = append(chans, c.c)
	}
	e.chanInterfere(st, chans)
	pos := posOf(fr.fn, x.Pos())
	// result tuple: (index, recvOk, one value per receive case)
	var vars []*types.Var
	vars = append(vars, types.NewVar(0, nil, "", intT), types.NewVar(0, nil, "", boolT))
	for i, s := range x.States {
		if s.Dir == types.RecvOnly {
			vars = append(vars, types.NewVar(0, nil, "", cases[i].elem))
		}
	}
	tt := types.NewTuple(vars...)
	result := func(idx int, ok Term, recvIdx int, rv Val) Val {
		out := Val{T: tt, L: []Term{IntLit(int64(idx)), ok}}
		for i, s := range x.States {
			if s.Dir != types.RecvOnly {
				continue
			}
			if i == recvIdx {
				out.L = append(out.L, rv.L...)
			} else {
				out.L = append(out.L, e.zeroVal(cases[i].elem).L...)
			}
		}
		return out
	}
	var readies []Term
	for i, s := range x.States {
		s2 := st.Clone()
		fr2 := fr.cloneForPath()
		s2.path = append(s2.path, fmt.Sprintf("c%d", i))
		c := cases[i]
		if s.Dir == types.SendOnly {
			ready, rv := e.sendReady(s2, c.c)
			// a closed channel makes the send case ready (and it panics)
			readyOrClosed := Or(ready, And(Not(Eq(c.c, IntLit(0))), e.chClosed(s2, c.c)))
			readies = append(readies, readyOrClosed)
			s2.Assume(readyOrClosed)
			e.sendClosed(s2, c.c, pos)
			e.doSend(s2, c.c, c.v, c.elem, rv)
			k(s2, fr2, result(i, False, -1, Val{}))
		} else {
			ready := e.recvReady(s2, c.c)
			readies = append(readies, ready)
			s2.Assume(ready)
			v, ok := e.doRecv(s2, c.c, c.elem)
			k(s2, fr2, result(i, ok, i, v))
		}
	}
	if !x.Blocking {
		st.path = append(st.path, "d")
		st.Assume(Not(Or(readies...)))
		k(st, fr, result(-1, False, -1, Val{}))
	}
}

// havocChans: a loop (or an abstracted callee) performed channel operations of the given kinds.
func (e *Engine) havocChans(st *State, bits int) {
	if bits == 0 {
		return
	}
	fresh := func(key string) {
		if cur, ok := st.chanHeap[key]; ok {
			e.setChanHeap(st, key, e.ctx.Fresh(key+"_lp", cur.Sort))
		}
	}
	// make sure the counters exist so that they are havocked and framed
	e.chHeadArr(st)
	e.chTailArr(st)
	e.chClosedArr(st)
	if bits&(chBitRecv|chBitSend) != 0 {
		fresh("CH_head")
	}
	if bits&chBitSend != 0 {
		fresh("CH_tail")
		var keys []string
		for k := range st.chanHeap {
			if strings.HasPrefix(k, "CQ_") {
				keys = append(keys, k)
			}
		}
		sort.Strings(keys)
		for _, k := range keys {
			fresh(k)
		}
	}
	if bits&chBitClose != 0 {
		fresh("CH_closed")
	}
}

// chanFrame: channels that existed before the call and are not listed in `assigns chan(c)` are untouched.
func (e *Engine) chanFrame(st *State, assigned []Term, anyChan bool) []Term {
	if anyChan || e.atomicMode() {
		return nil // in atomic mode other goroutines use the channels too
	}
	var cs []Term
	var keys []string
	for k := range st.chanHeap {
		keys = append(keys, k)
	}
	sort.Strings(keys)
	for _, k := range keys {
		cur := st.chanHeap[k]
		init := e.ctx.Const(k+"_0", cur.Sort)
		if cur.S == init.S {
			continue
		}
		guard := "(and (< 0 q_c) (< q_c " + e.next0.S + ")"
		for _, a := range assigned {
			guard += " (not (= q_c " + a.S + "))"
		}
		guard += ")"
		cs = append(cs, T(SBool, "(forall ((q_c Int)) (! (=> %s (= (select %s q_c) (select %s q_c))) :pattern ((select %s q_c))))", guard, cur.S, init.S, cur.S))
	}
	return cs
}

func init() {
	// time.NewTimer: ASSUMED to return a fresh Timer whose channel C is an environment channel (the runtime
	// sends on it at some moment of its choosing).
	externModels["time.NewTimer"] = func(e *Engine, st *State, fr *Frame, callee *ssa.Function, args []Val, rt types.Type, pos string, k callCont) {
		pt := rt.Underlying().(*types.Pointer)
		tt := pt.Elem()
		ref := st.next
		ch := Add(st.next, IntLit(1))
		st.next = e.nameTerm(st, "next", Add(st.next, IntLit(2)))
		pv := Val{T: rt, L: []Term{ref}}
		obj := e.freshVal("timer", tt)
		stt := tt.Underlying().(*types.Struct)
		for i := 0; i < stt.NumFields(); i++ {
			if stt.Field(i).Name() == "C" {
				off, _ := e.lay.fieldRange(stt, i)
				obj.L[off] = ch
			}
		}
		e.storeLoc(st, e.locOf(pv), obj)
		st.Assume(e.chEnv(ch))
		st.Assume(Eq(e.chCap(ch), IntLit(1)))
		e.setChanHeap(st, "CH_head", Store(e.chHeadArr(st), ch, IntLit(0)))
		e.setChanHeap(st, "CH_tail", Store(e.chTailArr(st), ch, IntLit(0)))
		e.setChanHeap(st, "CH_closed", Store(e.chClosedArr(st), ch, False))
		e.recordAction(st, &Action{Kind: "TimerNew", Obj: ref, Args: args, Pre: st, Post: st})
		k(st, fr, pv)
	}
	externModels["(*time.Timer).Stop"] = func(e *Engine, st *State, fr *Frame, callee *ssa.Function, args []Val, rt types.Type, pos string, k callCont) {
		e.obligationPanic(st, "nil", "Timer.Stop", Not(Eq(args[0].L[0], IntLit(0))))
		k(st, fr, Val{T: rt, L: []Term{e.ctx.Fresh("timer_stopped", SBool)}})
	}
}

// ctxDone: ctx.Done() of a context.Context: ASSUMED to return the same environment channel on every call
// (possibly nil: a context that is never cancelled).
func (e *Engine) ctxDone(st *State, recv Val, rt types.Type) Val {
	ch := e.ctx.App("ctxdone", SInt, recv.L[len(recv.L)-1])
	st.Assume(And(Le(IntLit(0), ch), Lt(ch, st.next)))
	st.Assume(Implies(Not(Eq(ch, IntLit(0))), e.chEnv(ch)))
	return Val{T: rt, L: []Term{ch}}
}

func coreType(t types.Type) types.Type {
	if tp, ok := t.(*types.TypeParam); ok {
		if c := coreOf(tp); c != nil {
			return c
		}
	}
	return t.Underlying()
}

// chanEntryWF: every channel that exists at entry is in a state the runtime can produce.
func (e *Engine) chanEntryWF(st *State) {
	h, t, c := e.chHeadArr(st), e.chTailArr(st), e.chClosedArr(st)
	st.Assume(T(SBool, "(forall ((q_c Int)) (! (and (<= 0 (select %s q_c)) (<= (select %s q_c) (select %s q_c)) (<= (- (select %s q_c) (select %s q_c)) (chancap q_c)) (<= 0 (chancap q_c))) :pattern ((select %s q_c)) :pattern ((select %s q_c))))",
		h.S, h.S, t.S, t.S, h.S, h.S, t.S))
	e.ctx.App("chancap", SInt, IntLit(0))
	st.Assume(And(Eq(Select(h, IntLit(0)), Select(t, IntLit(0))), Not(Select(c, IntLit(0)))))
}
