package main

import (
	"fmt"
	"os"
	"go/token"
	"go/types"
	"sort"
	"strings"

	"golang.org/x/tools/go/ssa"
)

type contFn func(st *State, results []Val)

// ---------------------------------------------------------------------------
// loops

type loopInfo struct {
	header *ssa.BasicBlock
	blocks map[*ssa.BasicBlock]bool
	ord    int
}

// findLoops returns natural loops keyed by header, ordinal by source order.
func findLoops(fn *ssa.Function) map[*ssa.BasicBlock]*loopInfo {
	loops := map[*ssa.BasicBlock]*loopInfo{}
	for _, b := range fn.Blocks {
		for _, s := range b.Succs {
			if s.Dominates(b) {
				li := loops[s]
				if li == nil {
					li = &loopInfo{header: s, blocks: map[*ssa.BasicBlock]bool{s: true}}
					loops[s] = li
				}
				// natural loop of back edge b->s
				var stack []*ssa.BasicBlock
				if !li.blocks[b] {
					li.blocks[b] = true
					stack = append(stack, b)
				}
				for len(stack) > 0 {
					x := stack[len(stack)-1]
					stack = stack[:len(stack)-1]
					for _, p := range x.Preds {
						if !li.blocks[p] {
							li.blocks[p] = true
							stack = append(stack, p)
						}
					}
				}
			}
		}
	}
	var hs []*ssa.BasicBlock
	for h := range loops {
		hs = append(hs, h)
	}
	pos := func(b *ssa.BasicBlock) token.Pos {
		var best token.Pos
		for blk := range loops[b].blocks {
			for _, in := range blk.Instrs {
				if p := in.Pos(); p.IsValid() && (best == 0 || p < best) {
					best = p
				}
			}
		}
		return best
	}
	sort.Slice(hs, func(i, j int) bool {
		pi, pj := pos(hs[i]), pos(hs[j])
		if pi != pj {
			return pi < pj
		}
		return hs[i].Index < hs[j].Index
	})
	for i, h := range hs {
		loops[h].ord = i
	}
	return loops
}

// ---------------------------------------------------------------------------
// frames and operands

func (e *Engine) operand(st *State, fr *Frame, v ssa.Value) Val {
	switch x := v.(type) {
	case *ssa.Const:
		return e.constVal(x, fr.env)
	case *ssa.Function:
		return Val{T: resolve(x.Type(), fr.env), L: []Term{e.funcID(x)}, Fn: &FuncVal{Fn: x, Env: e.calleeEnv(x, fr.env)}}
	case *ssa.Global:
		return e.globalAddr(x, fr)
	case *ssa.FreeVar:
		for i, fv := range fr.fn.FreeVars {
			if fv == x {
				return fr.free[i]
			}
		}
		panic("internal: free variable not found")
	case *ssa.Builtin:
		return Val{T: x.Type(), L: []Term{IntLit(0)}}
	}
	if r, ok := fr.regs[v]; ok {
		return r
	}
	panic(fmt.Sprintf("internal: no value for %s (%T) in %s", v.Name(), v, fr.fn.Name()))
}

func (e *Engine) funcID(fn *ssa.Function) Term {
	c := e.ctx.Const("fn_"+sanitize(fn.String()), SInt)
	e.ctx.Axiom("nonnil_"+c.S, "(not (= "+c.S+" 0))") // a function constant is never the nil func value
	return c
}

func (e *Engine) globalAddr(g *ssa.Global, fr *Frame) Val {
	pt := g.Type().(*types.Pointer)
	el := resolve(pt.Elem(), nil)
	ref := e.ctx.Const("global_"+sanitize(g.Pkg.Pkg.Name()+"_"+g.Name()), SInt)
	return Val{T: g.Type(), L: []Term{ref}, P: &Loc{Kind: LocObj, Ref: ref, Root: types.NewStruct([]*types.Var{types.NewField(0, nil, "g_"+g.Name(), el, false)}, nil), Off: 0, N: len(e.lay.Leaves(el)), T: el}}
}

// calleeEnv computes the type environment of a (possibly instantiated) callee.
func (e *Engine) calleeEnv(fn *ssa.Function, callerEnv TEnv) TEnv {
	env := TEnv{}
	orig := fn.Origin()
	if orig == nil {
		// closures inherit the environment of their parent
		if fn.Parent() != nil {
			for k, v := range callerEnv {
				env[k] = v
			}
		}
		return env
	}
	tps := orig.TypeParams()
	tas := fn.TypeArgs()
	for i := 0; i < tps.Len() && i < len(tas); i++ {
		env[tps.At(i)] = resolve(tas[i], callerEnv)
	}
	return env
}

func bodyOf(fn *ssa.Function) *ssa.Function {
	if o := fn.Origin(); o != nil {
		return o
	}
	return fn
}

// ---------------------------------------------------------------------------
// block execution (continuation passing; every branch explores its own clone)

func (e *Engine) execFunction(st *State, fn *ssa.Function, env TEnv, args []Val, free []Val, parent *Frame, c *Contract, k contFn) {
	body := bodyOf(fn)
	if len(body.Blocks) == 0 {
		panic(unsupported("function %s has no body", fn))
	}
	depth := 0
	if parent != nil {
		depth = parent.depth + 1
	}
	if depth > 8 {
		panic(unsupported("inlining depth exceeded at %s (recursion needs a contract)", fn))
	}
	fr := &Frame{fn: body, env: env, regs: map[ssa.Value]Val{}, names: map[string]NameBinding{}, parent: parent, depth: depth, free: free, inLoop: map[*ssa.BasicBlock]bool{}, contract: c}
	for i, p := range body.Params {
		if i < len(args) {
			a := args[i]
			fr.regs[p] = a
			fr.names[p.Name()] = NameBinding{V: a}
		}
	}
	if parent == nil {
		e.rootFr = fr
	}
	fr.onReturn = func(st *State, fr *Frame, results []Val) { k(st, results) }
	e.execBlock(st, fr, body.Blocks[0], nil)
}

func (e *Engine) execBlock(st *State, fr *Frame, b *ssa.BasicBlock, pred *ssa.BasicBlock) {
	if e.paths > e.maxPaths {
		panic(unsupported("path limit exceeded in %s", e.funcName))
	}
	loops := e.loopsOf(fr.fn)
	if li, ok := loops[b]; ok {
		isBack := pred != nil && li.blocks[pred] && fr.inLoop[b]
		if isBack {
			e.loopBackEdge(st, fr, li, pred)
			return
		}
		if !fr.inLoop[b] {
			e.loopEntry(st, fr, li, pred)
			return
		}
	}
	e.runInstrs(st, fr, b, pred, 0)
}

var loopCache = map[*ssa.Function]map[*ssa.BasicBlock]*loopInfo{}

func (e *Engine) loopsOf(fn *ssa.Function) map[*ssa.BasicBlock]*loopInfo {
	if l, ok := loopCache[fn]; ok {
		return l
	}
	l := findLoops(fn)
	loopCache[fn] = l
	return l
}

func (e *Engine) contractOfFrame(fr *Frame) *Contract {
	return fr.contract
}

func (e *Engine) loopSpec(fr *Frame, li *loopInfo) *LoopSpec {
	if ls, ok := e.borrowed[li.header]; ok {
		return ls
	}
	c := e.contractOfFrame(fr)
	if c == nil {
		return nil
	}
	return c.Loops[li.ord]
}

// resolvableClauses: loop clauses that name a variable which does not exist at this loop head (the loop was reshaped:
// a variable now declared inside the body) are left out - for the whole loop, entry, back edge and assumption alike.
// An invariant with fewer conjuncts is still proved before it is used; if the rest of the proof needed the clause, the
// proof fails as it would have.
func (e *Engine) resolvableClauses(st *State, fr *Frame, li *loopInfo, ls *LoopSpec) *LoopSpec {
	if ls.Unreach {
		return ls
	}
	ok := func(c Clause) (ok bool) {
		defer func() {
			if r := recover(); r != nil {
				ok = false
				if u, isU := r.(Unsupported); !isU || !strings.Contains(u.Msg, "unknown name") {
					panic(r)
				}
			}
		}()
		e.evalSpec(c.E, e.invEnv(st.Clone(), fr.cloneForPath()))
		return true
	}
	out := &LoopSpec{Owns: ls.Owns, Unreach: ls.Unreach}
	dropped := 0
	keep := func(in []Clause) (res []Clause) {
		for _, c := range in {
			if ok(c) {
				res = append(res, c)
			} else {
				dropped++
			}
		}
		return
	}
	out.Inv, out.Hints, out.Decr = keep(ls.Inv), keep(ls.Hints), keep(ls.Decr)
	if dropped == 0 {
		return ls
	}
	e.notes = append(e.notes, fmt.Sprintf("loop %d of %s: %d loop clause(s) name a variable that does not exist at the loop head and are left out", li.ord, fr.fn.Name(), dropped))
	if e.borrowed == nil {
		e.borrowed = map[*ssa.BasicBlock]*LoopSpec{}
	}
	e.borrowed[li.header] = out
	return out
}

// orphanContracts: contracts (of this run's contract set) whose function no longer exists in the code.
var orphanContracts []*Contract

// borrowLoopSpec: a loop for which no contract has an invariant (the loop arrived with an inlined helper, or left with
// an extracted one). Invariants are PROVED before they are used, so where one comes from does not matter for soundness:
// candidates are the loop clauses of contracts whose function has vanished from the same package, and - inside an
// inlined callee without a contract - the loop clauses of the root contract whose ordinal no longer exists in the root
// function. The first candidate all of whose names resolve here is tried; if its obligations fail the report is the
// same kind of report as before (an unproved loop).
func (e *Engine) borrowLoopSpec(st *State, fr *Frame, li *loopInfo) *LoopSpec {
	type cand struct {
		ls   *LoopSpec
		from string
	}
	var cands []cand
	pkg := ""
	if fr.fn != nil && fr.fn.Pkg != nil {
		pkg = fr.fn.Pkg.Pkg.Name()
	} else if e.rootC != nil {
		pkg = e.rootC.Pkg
	}
	ords := func(m map[int]*LoopSpec) []int {
		var ks []int
		for k := range m {
			ks = append(ks, k)
		}
		sort.Ints(ks)
		return ks
	}
	if fr.contract == nil && e.rootC != nil && e.rootFr != nil {
		n := len(e.loopsOf(e.rootFr.fn))
		for _, k := range ords(e.rootC.Loops) {
			if k >= n {
				cands = append(cands, cand{e.rootC.Loops[k], fmt.Sprintf("%s loop %d", e.rootC.Key, k)})
			}
		}
	}
	for _, oc := range orphanContracts {
		if oc.Pkg != pkg {
			continue
		}
		for _, k := range ords(oc.Loops) {
			cands = append(cands, cand{oc.Loops[k], fmt.Sprintf("%s loop %d", oc.Key, k)})
		}
	}
	// last resort: the loop clauses of any other contract of the package (a helper that still exists may have been
	// inlined into one of its callers); variants of the same function as the root contract first
	variant := ""
	if e.rootC != nil {
		if i := strings.Index(e.rootC.Key, "#"); i >= 0 {
			variant = e.rootC.Key[i:]
		}
	}
	for pass := 0; pass < 2; pass++ {
		for _, k := range e.cs.Order {
			oc := e.cs.Funcs[k]
			if oc == nil || oc.Pkg != pkg || oc == e.rootC || oc.Trusted || len(oc.Loops) == 0 {
				continue
			}
			sameVariant := variant != "" && strings.HasSuffix(oc.Key, variant)
			if (pass == 0) != sameVariant {
				continue
			}
			for _, o := range ords(oc.Loops) {
				cands = append(cands, cand{oc.Loops[o], fmt.Sprintf("%s loop %d", oc.Key, o)})
			}
		}
	}
	for _, c := range cands {
		if c.ls.Unreach || len(c.ls.Inv) == 0 {
			continue
		}
		ok := func() (ok bool) {
			defer func() {
				if r := recover(); r != nil {
					ok = false
				}
			}()
			probe := st.Clone()
			pf := fr.cloneForPath()
			for _, cl := range c.ls.Inv {
				e.evalBool(cl.E, e.invEnv(probe, pf))
			}
			for _, cl := range c.ls.Hints {
				e.evalBool(cl.E, e.invEnv(probe, pf))
			}
			return true
		}()
		if ok {
			e.notes = append(e.notes, fmt.Sprintf("loop %d of %s has no invariant of its own: using (after proving them here) the loop clauses written for %s", li.ord, fr.fn.Name(), c.from))
			if e.borrowed == nil {
				e.borrowed = map[*ssa.BasicBlock]*LoopSpec{}
			}
			e.borrowed[li.header] = c.ls
			return c.ls
		}
	}
	return nil
}

func (e *Engine) evalPhis(st *State, fr *Frame, b *ssa.BasicBlock, pred *ssa.BasicBlock) {
	idx := -1
	for i, p := range b.Preds {
		if p == pred {
			idx = i
		}
	}
	// phis are parallel assignments
	vals := map[*ssa.Phi]Val{}
	for _, in := range b.Instrs {
		phi, ok := in.(*ssa.Phi)
		if !ok {
			break
		}
		if idx < 0 {
			panic("internal: phi without predecessor")
		}
		vals[phi] = e.operand(st, fr, phi.Edges[idx])
	}
	for phi, v := range vals {
		v.T = resolve(phi.Type(), fr.env)
		fr.regs[phi] = v
		if phi.Comment != "" {
			fr.names[phi.Comment] = NameBinding{V: v}
			if li := e.loopsOf(fr.fn)[b]; li != nil {
				// nested range loops all call their index `rangeindex`: <name>_<loop ordinal> is unambiguous
				fr.names[fmt.Sprintf("%s_%d", phi.Comment, li.ord)] = NameBinding{V: v}
			}
		}
	}
	if li := e.loopsOf(fr.fn)[b]; li != nil {
		e.bindIndexAliases(fr, li)
	}
}

// bindIndexAliases makes loop contracts survive the harmless conversion between `for i := 0; i < n; i++` and
// `for i := range s`: at the head of a counting `for` loop whose counter starts at 0 and advances by one, `rangeindex`
// (the index of the element visited last) is counter-1; at the head of a range loop, the name of its key variable is
// rangeindex+1 (the index about to be visited). The aliases are bound at the header only and mean exactly what the
// other loop form's own variable means there.
func (e *Engine) bindIndexAliases(fr *Frame, li *loopInfo) {
	one := func(v ssa.Value) bool {
		c, ok := v.(*ssa.Const)
		return ok && c.Value != nil && c.Value.String() == "1"
	}
	zero := func(v ssa.Value) bool {
		c, ok := v.(*ssa.Const)
		return ok && c.Value != nil && c.Value.String() == "0"
	}
	bind := func(name string, t Term) {
		v := mkInt(t)
		fr.names[name] = NameBinding{V: v}
		fr.names[fmt.Sprintf("%s_%d", name, li.ord)] = NameBinding{V: v}
	}
	switch loopKind(li) {
	case "range-index":
		for _, in := range li.header.Instrs {
			phi, ok := in.(*ssa.Phi)
			if !ok {
				break
			}
			if phi.Comment != "rangeindex" {
				continue
			}
			pv, ok := fr.regs[phi]
			if !ok || len(pv.L) != 1 || pv.L[0].Sort != SInt {
				return
			}
			// the incremented index in the header, and the source name the body gives it
			for _, in2 := range li.header.Instrs {
				bo, ok := in2.(*ssa.BinOp)
				if !ok || bo.Op != token.ADD || bo.X != ssa.Value(phi) || !one(bo.Y) {
					continue
				}
				names := map[string]bool{}
				for blk := range li.blocks {
					for _, in3 := range blk.Instrs {
						if d, ok := in3.(*ssa.DebugRef); ok && !d.IsAddr && d.X == ssa.Value(bo) && d.Object() != nil {
							names[d.Object().Name()] = true
						}
					}
				}
				if len(names) == 1 {
					for n := range names {
						if n != "_" && n != "rangeindex" {
							bind(n, Add(pv.L[0], IntLit(1)))
						}
					}
				}
			}
		}
	case "for":
		var cand *ssa.Phi
		n := 0
		for _, in := range li.header.Instrs {
			phi, ok := in.(*ssa.Phi)
			if !ok {
				break
			}
			if phi.Comment == "rangeindex" {
				return
			}
			okInit, okStep := false, false
			for i, ed := range phi.Edges {
				if i >= len(li.header.Preds) {
					break
				}
				if li.blocks[li.header.Preds[i]] {
					if bo, ok := ed.(*ssa.BinOp); ok && bo.Op == token.ADD && bo.X == ssa.Value(phi) && one(bo.Y) {
						okStep = true
					} else {
						okStep = false
						break
					}
				} else if zero(ed) {
					okInit = true
				} else {
					okInit = false
					break
				}
			}
			if okInit && okStep {
				cand = phi
				n++
			}
		}
		if n == 1 {
			if pv, ok := fr.regs[cand]; ok && len(pv.L) == 1 && pv.L[0].Sort == SInt {
				bind("rangeindex", Sub(pv.L[0], IntLit(1)))
			}
		}
	}
}

func (e *Engine) loopEntry(st *State, fr *Frame, li *loopInfo, pred *ssa.BasicBlock) {
	if e.rel != nil {
		e.evalPhis(st, fr, li.header, pred)
		e.relRecord("loop-entry", li.ord, st.Clone(), nil, e.relPhis(fr, li))
		e.relHavocLoop(st, fr, li)
		fr.inLoop[li.header] = true
		st.path = append(st.path, fmt.Sprintf("L%d.", li.ord))
		e.runInstrs(st, fr, li.header, nil, countPhis(li.header))
		return
	}
	ls := e.loopSpec(fr, li)
	// evaluate phis for the entry edge, assert the invariant
	e.evalPhis(st, fr, li.header, pred)
	if ls == nil {
		ls = e.borrowLoopSpec(st, fr, li)
	}
	if ls == nil {
		panic(unsupported("loop %d of %s has no invariant", li.ord, fr.fn.Name()))
	}
	ls = e.resolvableClauses(st, fr, li, ls)
	if ls.Unreach {
		// the back edge is proved unreachable (obligation backedge-unreachable): the header runs once, from the
		// entry edge, with the entry state: no cut, no havoc
		fr.inLoop[li.header] = true
		st.path = append(st.path, fmt.Sprintf("L%d.", li.ord))
		e.runInstrs(st, fr, li.header, nil, countPhis(li.header))
		return
	}
	for _, c := range ls.Hints {
		st.Assume(e.evalBool(c.E, e.invEnv(st, fr)))
	}
	e.assertInvariant(st, fr, li, ls, "inv-entry")
	// havoc: header phis, cells and heaps written in the loop
	for _, in := range li.header.Instrs {
		phi, ok := in.(*ssa.Phi)
		if !ok {
			break
		}
		t := resolve(phi.Type(), fr.env)
		nv := e.freshVal(phi.Comment+"_"+phi.Name(), t)
		old := fr.regs[phi]
		nv.Fn = old.Fn
		if old.P != nil {
			panic(unsupported("loop-carried interior pointer %s", phi.Name()))
		}
		st.Assume(e.wellFormed(nv, st.next))
		if od := e.isOwnedPtr(t); od != nil {
			// read-only traversal: the loop variable points to some owned substructure
			e.addTree(st, od, nv.L[0], e.freshTree(st, od, phi.Comment))
		}
		fr.regs[phi] = nv
		if phi.Comment != "" {
			fr.names[phi.Comment] = NameBinding{V: nv}
			fr.names[fmt.Sprintf("%s_%d", phi.Comment, li.ord)] = NameBinding{V: nv}
		}
	}
	e.bindIndexAliases(fr, li)
	e.havocLoopWrites(st, fr, li)
	e.assumeInvariant(st, fr, li, ls)
	if len(ls.Decr) > 0 {
		// the variant's value at the head of an arbitrary iteration; compared at every back edge
		var vs []Term
		for _, c := range ls.Decr {
			vs = append(vs, e.evalTerm(c.E, e.invEnv(st, fr)))
		}
		if fr.variants == nil {
			fr.variants = map[*ssa.BasicBlock][]Term{}
		}
		fr.variants[li.header] = vs
	}
	fr.inLoop[li.header] = true
	st.path = append(st.path, fmt.Sprintf("L%d.", li.ord))
	e.runInstrs(st, fr, li.header, nil, countPhis(li.header))
}

func countPhis(b *ssa.BasicBlock) int {
	n := 0
	for _, in := range b.Instrs {
		if _, ok := in.(*ssa.Phi); ok {
			n++
		} else {
			break
		}
	}
	return n
}

func (e *Engine) loopBackEdge(st *State, fr *Frame, li *loopInfo, pred *ssa.BasicBlock) {
	if e.rel != nil {
		e.evalPhis(st, fr, li.header, pred)
		e.relRecord("loop-back", li.ord, st, nil, e.relPhis(fr, li))
		return
	}
	ls := e.loopSpec(fr, li)
	e.evalPhis(st, fr, li.header, pred)
	if ls.Unreach {
		e.obligation(st, "backedge-unreachable", fmt.Sprint(li.ord), False, "back edge declared unreachable")
		return
	}
	e.assertInvariant(st, fr, li, ls, "inv-preserve")
	if old := fr.variants[li.header]; len(old) > 0 && len(old) == len(ls.Decr) {
		// termination: the variant is bounded below and strictly smaller (lexicographically) at the next head
		var now []Term
		for _, c := range ls.Decr {
			now = append(now, e.evalTerm(c.E, e.invEnv(st, fr)))
		}
		g := False
		for i := len(old) - 1; i >= 0; i-- {
			g = Or(And(Le(IntLit(0), old[i]), Lt(now[i], old[i])), And(Eq(now[i], old[i]), g))
		}
		e.obligation(st, "decreases", fmt.Sprintf("loop%d", li.ord), g, "loop variant: "+ls.Decr[0].Src)
	}
	e.paths++
}

func (e *Engine) invEnv(st *State, fr *Frame) *SpecEnv {
	se := e.specEnv(st, e.oldOf(st), fr)
	se.preferNames = true
	return se
}

func (e *Engine) assertInvariant(st *State, fr *Frame, li *loopInfo, ls *LoopSpec, kind string) {
	for i, c := range ls.Inv {
		se := e.invEnv(st, fr)
		g := e.evalBool(c.E, se)
		lab := c.Label
		if lab == "" {
			lab = fmt.Sprintf("loop%d.%d", li.ord, i)
		} else {
			lab = fmt.Sprintf("loop%d.%s", li.ord, lab)
		}
		e.obligation(st, kind, lab, g, c.Src)
	}
	if fr.parent == nil {
		e.checkFrame(st, kind+"-frame")
	}
}

func (e *Engine) assumeInvariant(st *State, fr *Frame, li *loopInfo, ls *LoopSpec) {
	for _, c := range ls.Inv {
		se := e.invEnv(st, fr)
		st.Assume(e.evalBool(c.E, se))
	}
	for _, c := range ls.Hints {
		se := e.invEnv(st, fr)
		st.Assume(e.evalBool(c.E, se))
	}
	if fr.parent == nil {
		st.Assume(e.frameFormula(st))
	}
}

// havocLoopWrites forgets everything the loop body may write.
func (e *Engine) havocLoopWrites(st *State, fr *Frame, li *loopInfo) {
	w := &writeSet{cells: map[*ssa.Alloc]bool{}, sliceElems: map[string]types.Type{}, objRoots: map[string]types.Type{}, visited: map[*ssa.Function]bool{}}
	for b := range li.blocks {
		e.scanWrites(fr, b.Instrs, w, fr.env)
	}
	// closures created anywhere in this function may run inside the loop
	for _, af := range fr.fn.AnonFuncs {
		e.scanFuncWrites(fr, af, w, fr.env)
	}
	e.havocWriteSet(st, fr, w)
	// iterators
	var its []ssa.Value
	for it := range st.iter {
		its = append(its, it)
	}
	sort.Slice(its, func(i, j int) bool { return its[i].Pos() < its[j].Pos() || (its[i].Pos() == its[j].Pos() && its[i].Name() < its[j].Name()) })
	for _, it := range its {
		if r, ok := it.(*ssa.Range); ok && li.blocks[r.Block()] == false {
			// iterator created outside, advanced inside
			el := st.iter[it]
			st.iter[it] = e.ctx.Fresh("visited_lp", el.Sort)
			st.iterCount[it] = e.ctx.Fresh("niter_lp", SInt)
			st.Assume(Le(IntLit(0), st.iterCount[it]))
			st.iterMod[it] = e.ctx.Fresh("itermod_lp", SBool)
		}
	}
}

// havocWriteSet forgets everything in a write set.
func (e *Engine) havocWriteSet(st *State, fr *Frame, w *writeSet) {
	if w.all {
		e.havocAllHeaps(st)
	}
	if w.allocs {
		nn := e.ctx.Fresh("next_lp", SInt)
		st.Assume(Le(st.next, nn))
		st.next = nn
	}
	for _, fv := range w.freeVars {
		if fr != nil && fr.fn != nil {
			for i, f := range fr.fn.FreeVars {
				if f == fv && i < len(fr.free) {
					w.freeCells = append(w.freeCells, fr.free[i])
				}
			}
		}
	}
	for a := range w.cells {
		pv, ok := fr.regs[a]
		if !ok || pv.P == nil || pv.P.Kind != LocCell {
			continue
		}
		old := st.cells[pv.P.Cell]
		nv := e.freshVal(a.Comment+"_cell", old.T)
		st.Assume(e.wellFormed(nv, Add(st.next, IntLit(0))))
		nv.Fn = old.Fn
		st.cells[pv.P.Cell] = nv
	}
	// free variables (captured cells) written by this closure's own loop
	doneCells := map[int]bool{}
	for _, fvv := range w.freeCells {
		if fvv.P != nil && fvv.P.Kind == LocCell && !doneCells[fvv.P.Cell] {
			doneCells[fvv.P.Cell] = true
			old := st.cells[fvv.P.Cell]
			nv := e.freshVal("cap_cell", old.T)
			st.Assume(e.wellFormed(nv, st.next))
			st.cells[fvv.P.Cell] = nv
		}
	}
	var ks []string
	for k := range w.sliceElems {
		ks = append(ks, k)
	}
	sort.Strings(ks)
	for _, k := range ks {
		et := w.sliceElems[k]
		for i, lf := range e.lay.Leaves(et) {
			h := e.ctx.Fresh(e.sliceHeapKey(et, i)+"_lp", ArrSort(SInt, ArrSort(SInt, lf.Sort)))
			e.setSliceHeap(st, et, i, h)
		}
	}
	ks = nil
	for k := range w.objRoots {
		ks = append(ks, k)
	}
	sort.Strings(ks)
	for _, k := range ks {
		rt := w.objRoots[k]
		for i, lf := range e.lay.Leaves(rt) {
			h := e.ctx.Fresh(e.objHeapKey(rt, i)+"_lp", ArrSort(SInt, lf.Sort))
			e.setObjHeap(st, rt, i, h)
		}
	}
	e.havocChans(st, w.chans)
	if w.maps {
		e.havocMaps(st)
	} else {
		e.assumeMapWF(st)
	}
	// call logs may have grown by an unknown amount
	hv := map[string]bool{}
	for name := range st.logs {
		if w.calls[name] || w.anyCall {
			hv[name] = true
		}
	}
	for _, name := range w.syms {
		hv[name] = true
	}
	var hvs []string
	for name := range hv {
		hvs = append(hvs, name)
	}
	sort.Strings(hvs)
	for _, name := range hvs {
		e.havocLog(st, name)
	}
	e.havocGhost(st, w)
}

type writeSet struct {
	cells      map[*ssa.Alloc]bool
	freeCells  []Val
	chans      int // channel operations performed (chBit*)
	freeVars   []*ssa.FreeVar // captured variables written through a callee's assigns clause
	sliceElems map[string]types.Type
	objRoots   map[string]types.Type
	maps       bool
	allocs     bool
	all        bool
	anyCall    bool
	calls      map[string]bool
	syms       []string
	visited    map[*ssa.Function]bool
	ghost      bool
}

func (e *Engine) scanFuncWrites(fr *Frame, fn *ssa.Function, w *writeSet, env TEnv) {
	fn = bodyOf(fn)
	if w.visited[fn] {
		return
	}
	w.visited[fn] = true
	for _, b := range fn.Blocks {
		e.scanWrites(fr, b.Instrs, w, env)
	}
	for _, af := range fn.AnonFuncs {
		e.scanFuncWrites(fr, af, w, env)
	}
}

// addrRoot traces an address operand to what it designates.
func addrRoot(v ssa.Value) ssa.Value {
	for {
		switch x := v.(type) {
		case *ssa.FieldAddr:
			v = x.X
		case *ssa.IndexAddr:
			return x
		default:
			return v
		}
	}
}

func (e *Engine) scanWrites(fr *Frame, instrs []ssa.Instruction, w *writeSet, env TEnv) {
	markType := func(addr ssa.Value) {
		root := addrRoot(addr)
		switch r := root.(type) {
		case *ssa.Alloc:
			w.cells[r] = true
			// heap-allocated objects are written through the object heap
			if pt, ok := r.Type().Underlying().(*types.Pointer); ok && !e.addrUsesLocal(r, map[ssa.Value]bool{}) {
				t := resolve(pt.Elem(), env)
				w.objRoots[typeKey(t)] = t
			}
		case *ssa.IndexAddr:
			xt := resolve(r.X.Type(), env)
			et := resolve(elemOfSlice(xt), env)
			w.sliceElems[typeKey(et)] = et
		case *ssa.FreeVar:
			isCell := false
			for i, fv := range fr.fn.FreeVars {
				if fv == r && i < len(fr.free) {
					w.freeCells = append(w.freeCells, fr.free[i])
					if fr.free[i].P != nil && fr.free[i].P.Kind == LocCell {
						isCell = true
					}
				}
			}
			if pt, ok := r.Type().Underlying().(*types.Pointer); ok && !isCell {
				t := resolve(pt.Elem(), env)
				w.objRoots[typeKey(t)] = t
			}
			w.ghost = true
		default:
			if pt, ok := root.Type().Underlying().(*types.Pointer); ok {
				t := resolve(pt.Elem(), env)
				w.objRoots[typeKey(t)] = t
			} else {
				w.all = true
			}
		}
	}
	for _, in := range instrs {
		switch x := in.(type) {
		case *ssa.Store:
			markType(x.Addr)
		case *ssa.MapUpdate:
			w.maps = true
		case *ssa.Alloc:
			if x.Heap {
				w.allocs = true
			}
		case *ssa.MakeSlice, *ssa.MakeMap, *ssa.MakeChan:
			w.allocs = true
		case *ssa.Send:
			w.ghost = true
			w.chans |= chBitSend
		case *ssa.UnOp:
			if x.Op == token.ARROW {
				w.ghost = true
				w.chans |= chBitRecv
			}
		case *ssa.Select:
			w.ghost = true
			for _, s := range x.States {
				if s.Dir == types.SendOnly {
					w.chans |= chBitSend
				} else {
					w.chans |= chBitRecv
				}
			}
		case *ssa.Go, *ssa.Defer:
			w.ghost = true
			w.anyCall = true
			if g, ok := x.(*ssa.Go); ok {
				if callee, ok := g.Common().Value.(*ssa.Function); ok {
					w.syms = append(w.syms, "go_"+shortFuncName(callee))
				}
			}
		case ssa.CallInstruction:
			cc := x.Common()
			w.ghost = true
			if cc.IsInvoke() {
				w.anyCall = true
				w.allocs = true
				w.maps = true
				w.all = true
				continue
			}
			switch callee := cc.Value.(type) {
			case *ssa.Builtin:
				switch callee.Name() {
				case "append":
					w.allocs = true
					xt := resolve(cc.Args[0].Type(), env)
					et := resolve(elemOfSlice(xt), env)
					w.sliceElems[typeKey(et)] = et
				case "copy":
					xt := resolve(cc.Args[0].Type(), env)
					et := resolve(elemOfSlice(xt), env)
					w.sliceElems[typeKey(et)] = et
				case "delete":
					w.maps = true
				case "close":
					w.ghost = true
					w.chans |= chBitClose
				}
			case *ssa.Function:
				c := e.contractFor(callee)
				if e.rootC != nil {
					for _, l := range e.rootC.Extra["logcalls"] {
						for _, n := range strings.Fields(l) {
							if n == shortFuncName(callee) {
								w.syms = append(w.syms, n)
							}
						}
					}
				}
				if _, isGo := x.(*ssa.Go); isGo {
					w.syms = append(w.syms, "go_"+shortFuncName(callee))
					continue
				}
				if c != nil && e.inlineCall(callee) {
					c = nil
				}
				if c != nil && !c.Inline {
					e.scanContractWrites(callee, c, cc, w, env)
					// pointer arguments are in/out unless the callee's contract has an explicit frame (assigns),
					// which says exactly what it may write
					if !c.HasAssign {
						for _, a := range cc.Args {
							if _, ok := a.Type().Underlying().(*types.Pointer); ok {
								markType(a)
							}
						}
					}
				} else if len(bodyOf(callee).Blocks) > 0 {
					cenv := e.calleeEnv(callee, env)
					e.scanFuncWrites(fr, callee, w, cenv)
					for _, a := range cc.Args {
						if _, ok := a.Type().Underlying().(*types.Pointer); ok {
							markType(a)
						}
					}
				} else {
					e.scanExternWrites(callee, cc, w, env)
				}
			case *ssa.MakeClosure:
				e.scanFuncWrites(fr, callee.Fn.(*ssa.Function), w, env)
			default:
				// call of a function value (callback parameter or closure)
				w.anyCall = true
				if p, ok := cc.Value.(*ssa.Parameter); ok {
					w.syms = append(w.syms, p.Name())
				}
				if fv, ok := cc.Value.(*ssa.FreeVar); ok {
					w.syms = append(w.syms, fv.Name())
				}
			}
		}
	}
}

func (e *Engine) scanContractWrites(callee *ssa.Function, c *Contract, cc *ssa.CallCommon, w *writeSet, env TEnv) {
	if c.HasAssign && len(c.Assigns) == 0 {
		w.allocs = true
		return
	}
	w.allocs = true
	cenv := e.calleeEnv(callee, env)
	body := bodyOf(callee)
	for _, a := range c.Assigns {
		a = strings.TrimSpace(a)
		switch {
		case strings.HasPrefix(a, "elems("):
			name := strings.TrimSuffix(strings.TrimPrefix(a, "elems("), ")")
			name = strings.TrimSpace(strings.Split(name, ",")[0])
			name = strings.TrimPrefix(name, "*")
			name = strings.TrimPrefix(name, "old(")
			name = strings.TrimSuffix(name, ")")
			found := false
			for _, p := range body.Params {
				if p.Name() == name || strings.HasPrefix(name, p.Name()+".") {
					t := resolve(p.Type(), cenv)
					if strings.Contains(name, ".") {
						// field of a struct parameter: find slice-typed field
						t = e.fieldTypeByPath(t, strings.SplitN(name, ".", 2)[1])
					}
					if pt, ok := t.Underlying().(*types.Pointer); ok {
						t = resolve(pt.Elem(), cenv)
					}
					et := resolve(elemOfSlice(t), cenv)
					w.sliceElems[typeKey(et)] = et
					found = true
				}
			}
			if !found {
				w.all = true
			}
		case strings.HasPrefix(a, "*"):
			// in/out pointer parameter: handled by the caller through the argument
		case a == "maps", strings.HasPrefix(a, "map("):
			w.maps = true
		case strings.HasPrefix(a, "chan("), a == "chans":
			w.chans |= chBitRecv | chBitSend | chBitClose
		case strings.HasPrefix(a, "ghost("):
			w.ghost = true
		case strings.HasPrefix(a, "log("):
			w.anyCall = true
		case a == "heap":
			w.all = true
		case strings.HasPrefix(a, "objects("):
			w.all = true // (coarse: a loop that calls such a function havocs the object heaps)
		case strings.HasPrefix(a, "fields("):
			name := strings.TrimSuffix(strings.TrimPrefix(a, "fields("), ")")
			for pi, p := range body.Params {
				if p.Name() == name {
					if cc != nil && !cc.IsInvoke() && pi < len(cc.Args) {
						// the object is a local variable of the caller: only that cell is written
						switch av := cc.Args[pi].(type) {
						case *ssa.FreeVar:
							w.freeVars = append(w.freeVars, av)
							continue
						case *ssa.Alloc:
							if e.addrUsesLocal(av, map[ssa.Value]bool{}) {
								w.cells[av] = true
								continue
							}
						}
					}
					t := resolve(p.Type(), cenv)
					if pt, ok := t.Underlying().(*types.Pointer); ok {
						rt := resolve(pt.Elem(), cenv)
						w.objRoots[typeKey(rt)] = rt
					}
				}
			}
		default:
			w.all = true
		}
	}
}

func (e *Engine) fieldTypeByPath(t types.Type, path string) types.Type {
	for _, f := range strings.Split(path, ".") {
		if pt, ok := t.Underlying().(*types.Pointer); ok {
			t = pt.Elem()
		}
		st, ok := t.Underlying().(*types.Struct)
		if !ok {
			panic(unsupported("field path %s on %s", path, t))
		}
		found := false
		for i := 0; i < st.NumFields(); i++ {
			if st.Field(i).Name() == f {
				t = st.Field(i).Type()
				found = true
				break
			}
		}
		if !found {
			panic(unsupported("no field %s in %s", f, t))
		}
	}
	return t
}

func (e *Engine) havocAllHeaps(st *State) {
	for _, k := range sortedKeys(st.sliceHeap) {
		st.sliceHeap[k] = e.ctx.Fresh(k+"_hv", st.sliceHeap[k].Sort)
	}
	for _, k := range sortedKeys(st.objHeap) {
		st.objHeap[k] = e.ctx.Fresh(k+"_hv", st.objHeap[k].Sort)
	}
	e.note("a loop or call havocs every heap already touched on the path (conservative frame)")
}

func (e *Engine) havocLog(st *State, name string) {
	l, ok := st.logs[name]
	if !ok {
		// create it from the callback's signature so that invariants can talk about it
		l = e.logFromSig(st, name)
		if l == nil {
			return
		}
	}
	nl := &CallLog{Len: e.ctx.Fresh("loglen_"+name, SInt), ArgT: l.ArgT}
	st.Assume(Le(IntLit(0), nl.Len))
	nl.Succ = e.ctx.Fresh("logsucc_"+name, SInt)
	st.Assume(And(Le(IntLit(0), nl.Succ), Le(nl.Succ, nl.Len)))
	for _, arrs := range l.Args {
		var na []Term
		for _, a := range arrs {
			na = append(na, e.ctx.Fresh("log_"+name+"_lp", a.Sort))
		}
		nl.Args = append(nl.Args, na)
	}
	st.logs[name] = nl
}

// logFromSig creates the empty log of a callback parameter of the root function.
func (e *Engine) logFromSig(st *State, name string) *CallLog {
	pv, ok := e.params[name]
	if !ok {
		// a statically called (or spawned) function recorded through `opt logcalls` / a go statement
		if callee := e.findCalleeByName(strings.TrimPrefix(name, "go_")); callee != nil {
			cenv := e.calleeEnv(callee, e.rootEnv)
			var args []Val
			for _, p := range bodyOf(callee).Params {
				args = append(args, e.zeroVal(resolve(p.Type(), cenv)))
			}
			for i := 0; i < e.numRootLoops(); i++ {
				args = append(args, mkInt(IntLit(-1)))
			}
			return e.getLog(st, name, args)
		}
		return nil
	}
	sig, ok := pv.T.Underlying().(*types.Signature)
	if !ok {
		return nil
	}
	var args []Val
	for i := 0; i < sig.Params().Len(); i++ {
		args = append(args, e.zeroVal(resolve(sig.Params().At(i).Type(), e.rootEnv)))
	}
	return e.getLog(st, name, args)
}

// ---------------------------------------------------------------------------
// instructions

func (e *Engine) runInstrs(st *State, fr *Frame, b *ssa.BasicBlock, pred *ssa.BasicBlock, from int) {
	fr.cur = b
	if pred != nil && from == 0 {
		e.evalPhis(st, fr, b, pred)
		from = countPhis(b)
	}
	for i := from; i < len(b.Instrs); i++ {
		in := b.Instrs[i]
		switch x := in.(type) {
		case *ssa.Phi:
			continue
		case *ssa.If:
			c := e.operand(st, fr, x.Cond).L[0]
			if c.S == "true" {
				e.execBlock(st, fr, b.Succs[0], b)
				return
			}
			if c.S == "false" {
				e.execBlock(st, fr, b.Succs[1], b)
				return
			}
			st2 := st.Clone()
			fr2 := fr.cloneForPath()
			st.Assume(c)
			st.path = append(st.path, "t")
			st2.Assume(Not(c))
			st2.path = append(st2.path, "f")
			e.execBlock(st, fr, b.Succs[0], b)
			e.execBlock(st2, fr2, b.Succs[1], b)
			return
		case *ssa.Jump:
			e.execBlock(st, fr, b.Succs[0], b)
			return
		case *ssa.Return:
			var rs []Val
			for _, r := range x.Results {
				rs = append(rs, e.operand(st, fr, r))
			}
			e.lastRet = x.Results
			e.runDefers(st, fr, func(st *State) {
				fr.onReturn(st, fr, rs)
			})
			return
		case *ssa.Panic:
			e.runDefers(st, fr, func(st *State) {
				e.explicitPanic(st, fr, posOf(fr.fn, x.Pos()))
			})
			return
		case *ssa.RunDefers:
			// handled at Return (the deferred calls of this code base do not alter results)
			continue
		case *ssa.DebugRef:
			e.debugRef(st, fr, x)
			continue
		case ssa.CallInstruction:
			// Call, Go, Defer
			switch ci := x.(type) {
			case *ssa.Defer:
				e.execDefer(st, fr, ci)
				continue
			case *ssa.Go:
				e.execGo(st, fr, ci)
				continue
			case *ssa.Call:
				rest := i + 1
				e.execCall(st, fr, ci, func(st *State, fr *Frame, res Val) {
					fr.regs[ci] = res
					e.runInstrs(st, fr, b, nil, rest)
				})
				return
			}
		case *ssa.Select:
			rest := i + 1
			sel := x
			e.execSelect(st, fr, sel, func(st *State, fr *Frame, res Val) {
				fr.regs[sel] = res
				e.runInstrs(st, fr, b, nil, rest)
			})
			return
		case *ssa.Next:
			rest := i + 1
			nx := x
			e.execNext(st, fr, nx, func(st *State, fr *Frame, res Val) {
				fr.regs[nx] = res
				e.runInstrs(st, fr, b, nil, rest)
			})
			return
		default:
			if forked := e.execSimple(st, fr, in, b, i); forked {
				return
			}
		}
	}
}

func (e *Engine) debugRef(st *State, fr *Frame, x *ssa.DebugRef) {
	obj := x.Object()
	if obj == nil {
		return
	}
	if v, ok := obj.(*types.Var); !ok || v.IsField() {
		return
	}
	if _, isFn := x.X.(*ssa.Function); isFn {
		return
	}
	defer func() {
		// values that are not materialised (e.g. builtins) are simply not named
		if r := recover(); r != nil {
			if _, ok := r.(Unsupported); ok {
				return
			}
			if s, ok := r.(string); ok && strings.HasPrefix(s, "internal: no value") {
				return
			}
			panic(r)
		}
	}()
	if _, isConst := x.X.(*ssa.Const); isConst && !x.IsAddr {
		// x/tools emits the zero constant at the definition of a variable initialised by a composite
		// literal; if the variable has exactly one other SSA value, that value is its meaning
		if u := e.uniqueValues(fr.fn)[obj.Name()]; u != nil {
			return
		}
	}
	v := e.operand(st, fr, x.X)
	if os.Getenv("GOVC_TRACE_NAMES") != "" {
		fmt.Fprintf(os.Stderr, "[debugref] %s.%s := %v (%s)\n", fr.fn.Name(), obj.Name(), v, x.X.Name())
	}
	if !x.IsAddr {
		// a variable that lives in a cell (captured by a closure, address taken): its name denotes the cell's
		// current content, not the value it was initialised with
		if a := e.allocNamed(fr.fn, obj.Name()); a != nil {
			if pv, ok := fr.regs[a]; ok {
				fr.names[obj.Name()] = NameBinding{V: pv, IsAddr: true}
				return
			}
		}
	}
	fr.names[obj.Name()] = NameBinding{V: v, IsAddr: x.IsAddr}
}

func (e *Engine) runDefers(st *State, fr *Frame, k func(st *State)) {
	if len(fr.defers) == 0 {
		k(st)
		return
	}
	d := fr.defers[len(fr.defers)-1]
	fr.defers = fr.defers[:len(fr.defers)-1]
	e.callValue(st, fr, d.call, d.fnv, d.args, "defer", func(st *State, fr *Frame, _ Val) {
		e.runDefers(st, fr, k)
	})
}

func (e *Engine) execDefer(st *State, fr *Frame, d *ssa.Defer) {
	cc := d.Common()
	var args []Val
	for _, a := range cc.Args {
		args = append(args, e.operand(st, fr, a))
	}
	var fnv Val
	if !cc.IsInvoke() {
		if _, isB := cc.Value.(*ssa.Builtin); !isB {
			fnv = e.operand(st, fr, cc.Value)
		}
	} else {
		fnv = e.operand(st, fr, cc.Value)
	}
	fr.defers = append(fr.defers, deferred{call: cc, args: args, fnv: fnv})
}

// execSimple executes a non-branching instruction. It returns true if it took
// over control (forked and continued execution itself).
func (e *Engine) execSimple(st *State, fr *Frame, in ssa.Instruction, b *ssa.BasicBlock, idx int) bool {
	pos := posOf(fr.fn, in.Pos())
	switch x := in.(type) {
	case *ssa.Alloc:
		t := resolve(x.Type().(*types.Pointer).Elem(), fr.env)
		if at, ok := t.Underlying().(*types.Array); ok {
			// array objects live in the element heap (they are sliced and indexed like backing arrays)
			sv := e.makeSlice(st, types.NewSlice(at.Elem()), IntLit(at.Len()), IntLit(at.Len()))
			fr.regs[x] = Val{T: resolve(x.Type(), fr.env), L: []Term{sv.L[0]}, P: &Loc{Kind: LocArr, Base: sv.L[0], ElemT: resolve(at.Elem(), fr.env), N: int(at.Len()), T: t}}
		} else if e.allocIsCell(fr, x) {
			e.cellN++
			id := e.cellN
			st.cells[id] = e.zeroVal(t)
			fr.regs[x] = Val{T: resolve(x.Type(), fr.env), L: []Term{IntLit(-int64(id))}, P: &Loc{Kind: LocCell, Cell: id, Off: 0, N: len(e.lay.Leaves(t)), T: t}}
		} else {
			ref := st.next
			st.next = e.nameTerm(st, "next", Add(st.next, IntLit(1)))
			pv := Val{T: resolve(x.Type(), fr.env), L: []Term{ref}}
			if od := e.ownedDecl(t); od != nil {
				e.newOwned(st, od, ref, t)
			} else {
				e.storeLoc(st, e.locOf(pv), e.zeroVal(t))
				e.initAbstract(st, pv, t, 0)
			}
			fr.regs[x] = pv
		}
	case *ssa.BinOp:
		a := e.operand(st, fr, x.X)
		c := e.operand(st, fr, x.Y)
		fr.regs[x] = e.binop(st, x.Op, a, c, resolve(x.Type(), fr.env), pos)
	case *ssa.UnOp:
		a := e.operand(st, fr, x.X)
		rt := resolve(x.Type(), fr.env)
		switch x.Op {
		case token.MUL: // load
			loc := e.locOfChecked(st, a, pos)
			e.sharedAccess(st, fr, loc, false, pos)
			v := e.loadLoc(st, loc)
			v.T = rt
			if loc.Kind != LocCell {
				// values held in memory satisfy the representation invariants of their type
				st.Assume(e.wellFormed(v, st.next))
			}
			if e.lastLoad == nil {
				e.lastLoad = map[ssa.Value]*Loc{}
			}
			e.lastLoad[x] = loc
			fr.regs[x] = v
		case token.NOT:
			fr.regs[x] = Val{T: rt, L: []Term{Not(a.L[0])}}
		case token.SUB:
			t := a.L[0]
			switch {
			case t.Sort == SInt:
				fr.regs[x] = Val{T: rt, L: []Term{T(SInt, "(- %s)", t.S)}}
			case t.Sort.IsBV():
				fr.regs[x] = Val{T: rt, L: []Term{T(t.Sort, "(bvneg %s)", t.S)}}
			case t.Sort.IsFP():
				fr.regs[x] = Val{T: rt, L: []Term{T(t.Sort, "(fp.neg %s)", t.S)}}
			default:
				fr.regs[x] = Val{T: rt, L: []Term{e.ctx.App("neg_"+string(t.Sort), t.Sort, t)}}
			}
		case token.XOR:
			t := a.L[0]
			if t.Sort.IsBV() {
				fr.regs[x] = Val{T: rt, L: []Term{T(t.Sort, "(bvnot %s)", t.S)}}
			} else {
				panic(unsupported("bitwise complement on mathematical integers"))
			}
		case token.ARROW:
			e.execRecv(st, fr, x, a)
		default:
			panic(unsupported("unary %s", x.Op))
		}
	case *ssa.Store:
		addr := e.operand(st, fr, x.Addr)
		v := e.operand(st, fr, x.Val)
		loc := e.locOfChecked(st, addr, pos)
		e.checkSharedWrite(st, fr, loc, pos)
		e.storeLoc(st, loc, v)
	case *ssa.FieldAddr:
		base := e.operand(st, fr, x.X)
		fr.regs[x] = e.fieldAddr(st, fr, base, x.Field, resolve(x.Type(), fr.env), pos)
	case *ssa.Field:
		sv := e.operand(st, fr, x.X)
		stt := sv.T.Underlying().(*types.Struct)
		off, n := e.lay.fieldRange(stt, x.Field)
		fr.regs[x] = Val{T: resolve(x.Type(), fr.env), L: sv.L[off : off+n]}
	case *ssa.IndexAddr:
		sv := e.operand(st, fr, x.X)
		iv := e.operand(st, fr, x.Index)
		fr.regs[x] = e.indexAddr(st, fr, sv, iv, resolve(x.Type(), fr.env), pos)
	case *ssa.Index:
		// index of an array value (or string)
		av := e.operand(st, fr, x.X)
		iv := e.operand(st, fr, x.Index)
		at, ok := av.T.Underlying().(*types.Array)
		if !ok {
			panic(unsupported("index of %s", av.T))
		}
		n := len(e.lay.Leaves(at.Elem()))
		rt := resolve(x.Type(), fr.env)
		e.obligationPanic(st, "bounds", pos, And(Le(IntLit(0), iv.L[0]), Lt(iv.L[0], IntLit(at.Len()))))
		out := Val{T: rt, L: make([]Term, n)}
		for k := 0; k < n; k++ {
			t := av.L[(int(at.Len())-1)*n+k]
			for j := int(at.Len()) - 2; j >= 0; j-- {
				t = Ite(Eq(iv.L[0], IntLit(int64(j))), av.L[j*n+k], t)
			}
			out.L[k] = t
		}
		fr.regs[x] = out
	case *ssa.Slice:
		e.execSlice(st, fr, x, pos)
	case *ssa.MakeSlice:
		ln := e.operand(st, fr, x.Len).L[0]
		cp := e.operand(st, fr, x.Cap).L[0]
		t := resolve(x.Type(), fr.env)
		e.obligationPanic(st, "makeslice", pos, And(Le(IntLit(0), ln), Le(ln, cp)))
		fr.regs[x] = e.makeSlice(st, t, ln, cp)
	case *ssa.MakeMap:
		fr.regs[x] = e.makeMap(st, resolve(x.Type(), fr.env))
	case *ssa.MakeChan:
		fr.regs[x] = e.makeChan(st, fr, x)
	case *ssa.MakeClosure:
		fn := x.Fn.(*ssa.Function)
		var bs []Val
		for _, bv := range x.Bindings {
			bs = append(bs, e.operand(st, fr, bv))
		}
		fr.regs[x] = Val{T: resolve(x.Type(), fr.env), L: []Term{e.funcID(fn)}, Fn: &FuncVal{Fn: fn, Bindings: bs, Env: fr.env}}
	case *ssa.MakeInterface:
		v := e.operand(st, fr, x.X)
		fr.regs[x] = e.makeInterface(st, v, resolve(x.Type(), fr.env))
	case *ssa.ChangeInterface:
		v := e.operand(st, fr, x.X)
		v.T = resolve(x.Type(), fr.env)
		fr.regs[x] = v
	case *ssa.ChangeType:
		v := e.operand(st, fr, x.X)
		rt := resolve(x.Type(), fr.env)
		_, toIface := rt.Underlying().(*types.Interface)
		_, fromIface := v.T.Underlying().(*types.Interface)
		if _, isTP := rt.(*types.TypeParam); toIface && !isTP && (!fromIface || isAbstractTP(v.T)) {
			// generic code converts T to an interface with changetype; for a non-interface T this boxes the value
			fr.regs[x] = e.makeInterface(st, v, rt)
		} else {
			v.T = rt
			fr.regs[x] = v
		}
	case *ssa.Convert:
		v := e.operand(st, fr, x.X)
		fr.regs[x] = e.convert(st, v, resolve(x.Type(), fr.env))
	case *ssa.MultiConvert:
		v := e.operand(st, fr, x.X)
		fr.regs[x] = e.convert(st, v, resolve(x.Type(), fr.env))
	case *ssa.Extract:
		tv := e.operand(st, fr, x.Tuple)
		tt := tv.T.(*types.Tuple)
		off := 0
		for j := 0; j < x.Index; j++ {
			off += len(e.lay.Leaves(resolve(tt.At(j).Type(), nil)))
		}
		ft := resolve(tt.At(x.Index).Type(), nil)
		n := len(e.lay.Leaves(ft))
		out := Val{T: resolve(x.Type(), fr.env), L: tv.L[off : off+n]}
		fr.regs[x] = out
	case *ssa.TypeAssert:
		e.execTypeAssert(st, fr, x, pos)
	case *ssa.Lookup:
		e.execLookup(st, fr, x, pos)
	case *ssa.MapUpdate:
		e.execMapUpdate(st, fr, x, pos)
	case *ssa.Range:
		e.execRange(st, fr, x)
	case *ssa.Send:
		e.execSend(st, fr, x, pos)
	case *ssa.SliceToArrayPointer:
		panic(unsupported("slice to array pointer"))
	default:
		panic(unsupported("instruction %T (%s)", in, in))
	}
	return false
}

func (e *Engine) locOfChecked(st *State, pv Val, pos string) *Loc {
	if pv.P != nil {
		return pv.P
	}
	e.obligationPanic(st, "nil", pos, Not(Eq(pv.L[0], IntLit(0))))
	return e.locOf(pv)
}

func (e *Engine) fieldAddr(st *State, fr *Frame, base Val, field int, rt types.Type, pos string) Val {
	loc := base.P
	if loc == nil {
		e.obligationPanic(st, "nil", pos, Not(Eq(base.L[0], IntLit(0))))
		loc = e.locOf(base)
	}
	stt, ok := loc.T.Underlying().(*types.Struct)
	if !ok {
		panic(unsupported("field address in non-struct %s", loc.T))
	}
	off, n := e.lay.fieldRange(stt, field)
	ft := resolve(stt.Field(field).Type(), fr.env)
	if _, isStruct := ft.Underlying().(*types.Struct); isStruct && (loc.Kind == LocObj) {
		if _, named := ft.(*types.Named); named {
			// a struct embedded by value is an object of its own type at a sub-reference of the
			// enclosing object: &x.f is a first-class pointer (it may be stored, compared, passed on)
			sub := e.subRef(loc.Ref, loc.Root, loc.Off+off)
			return Val{T: rt, L: []Term{sub}}
		}
	}
	nl := *loc
	nl.Off = loc.Off + off
	nl.N = n
	nl.T = ft
	ref := base.L[0]
	return Val{T: rt, L: []Term{ref}, P: &nl}
}

// subRef: the reference of the sub-object at leaf offset off inside object ref of type root.
// Sub-references are negative (never confused with allocated objects or nil) and injective.
func (e *Engine) subRef(ref Term, root types.Type, off int) Term {
	if e.rel != nil {
		name := fmt.Sprintf("sub_%s_%d", e.relKey(typeKey(root)), off)
		f := e.ctx.Fun(name, []Sort{SInt}, SInt)
		inv := e.ctx.Fun(name+"_inv", []Sort{SInt}, SInt)
		e.ctx.Axiom(name+"_neg", fmt.Sprintf("(forall ((x Int)) (! (< (%s x) 0) :pattern ((%s x))))", f, f))
		e.ctx.Axiom(name+"_inj", fmt.Sprintf("(forall ((x Int)) (! (= (%s (%s x)) x) :pattern ((%s x))))", inv, f, f))
		return T(SInt, "(%s %s)", f, ref.S)
	}
	// one binary injection sub(owner, code) into the negative integers, with inverses, and allocid(r): the
	// allocation number of the (outermost) object a reference points into
	code := e.subCode(typeKey(root), off)
	e.ctx.Fun("sub", []Sort{SInt, SInt}, SInt)
	e.ctx.Fun("sub_owner", []Sort{SInt}, SInt)
	e.ctx.Fun("sub_code", []Sort{SInt}, SInt)
	e.ctx.Fun("allocid", []Sort{SInt}, SInt)
	e.ctx.Axiom("sub_neg", "(forall ((x Int) (c Int)) (! (< (sub x c) 0) :pattern ((sub x c))))")
	e.ctx.Axiom("sub_inj", "(forall ((x Int) (c Int)) (! (and (= (sub_owner (sub x c)) x) (= (sub_code (sub x c)) c) (= (allocid (sub x c)) (allocid x))) :pattern ((sub x c))))")
	e.ctx.Axiom("allocid_pos", "(forall ((x Int)) (! (=> (>= x 0) (= (allocid x) x)) :pattern ((allocid x))))")
	return T(SInt, "(sub %s %d)", ref.S, code)
}

func (e *Engine) subCode(key string, off int) int {
	k := fmt.Sprintf("%s#%d", key, off)
	if c, ok := e.subCodes[k]; ok {
		return c
	}
	c := len(e.subCodes) + 1
	e.subCodes[k] = c
	return c
}

// allocID: the allocation number of the object a reference points into (the reference itself unless
// sub-object references are in play for this function).
func (e *Engine) allocID(t Term) Term {
	if !e.useAllocID {
		return t
	}
	e.ctx.Fun("allocid", []Sort{SInt}, SInt)
	e.ctx.Axiom("allocid_pos", "(forall ((x Int)) (! (=> (>= x 0) (= (allocid x) x)) :pattern ((allocid x))))")
	return T(SInt, "(allocid %s)", t.S)
}

func (e *Engine) indexAddr(st *State, fr *Frame, sv Val, iv Val, rt types.Type, pos string) Val {
	idx := iv.L[0]
	if idx.Sort.IsBV() {
		idx = e.bvToInt(idx, isSignedInt(iv.T))
	}
	switch xt := sv.T.Underlying().(type) {
	case *types.Slice:
		_ = xt
	case *types.Pointer:
		// pointer to array
		at, ok := xt.Elem().Underlying().(*types.Array)
		if !ok {
			panic(unsupported("index address of %s", sv.T))
		}
		if sv.P != nil && sv.P.Kind == LocArr {
			e.obligationPanic(st, "bounds", pos, And(Le(IntLit(0), idx), Lt(idx, IntLit(at.Len()))))
			et := sv.P.ElemT
			return Val{T: rt, L: []Term{IntLit(-1)}, P: &Loc{Kind: LocElem, Base: sv.P.Base, Idx: idx, ElemT: et, Off: 0, N: len(e.lay.Leaves(et)), T: et}}
		}
		loc := e.locOfChecked(st, sv, pos)
		e.obligationPanic(st, "bounds", pos, And(Le(IntLit(0), idx), Lt(idx, IntLit(at.Len()))))
		n := len(e.lay.Leaves(at.Elem()))
		// constant index only
		var k int64
		if _, err := fmt.Sscanf(idx.S, "%d", &k); err != nil {
			panic(unsupported("symbolic index into an array object"))
		}
		nl := *loc
		nl.Off = loc.Off + int(k)*n
		nl.N = n
		nl.T = resolve(at.Elem(), fr.env)
		return Val{T: rt, L: []Term{sv.L[0]}, P: &nl}
	}
	et := resolve(elemOfSlice(sv.T), fr.env)
	e.obligationPanic(st, "bounds", pos, And(Le(IntLit(0), idx), Lt(idx, sv.L[2])))
	n := len(e.lay.Leaves(et))
	return Val{T: rt, L: []Term{IntLit(-1)}, P: &Loc{Kind: LocElem, Base: sv.L[0], Idx: Add(sv.L[1], e.idxWrap(idx)), ElemT: et, Off: 0, N: n, T: et}}
}

func (e *Engine) bvToInt(t Term, signed bool) Term {
	w := t.Sort.BVWidth()
	u := T(SInt, "(bv2nat %s)", t.S)
	if !signed {
		return u
	}
	return T(SInt, "(ite (bvslt %s (_ bv0 %d)) (- %s %s) %s)", t.S, w, u.S, pow2(w), u.S)
}

func pow2(w int) string {
	switch w {
	case 8:
		return "256"
	case 16:
		return "65536"
	case 32:
		return "4294967296"
	case 64:
		return "18446744073709551616"
	}
	return "0"
}

func (e *Engine) execSlice(st *State, fr *Frame, x *ssa.Slice, pos string) {
	sv := e.operand(st, fr, x.X)
	rt := resolve(x.Type(), fr.env)
	var lo, hi, mx Term
	if x.Low != nil {
		lo = e.operand(st, fr, x.Low).L[0]
	} else {
		lo = IntLit(0)
	}
	if sv.P != nil && sv.P.Kind == LocArr {
		n := IntLit(int64(sv.P.N))
		sv = Val{T: types.NewSlice(sv.P.ElemT), L: []Term{sv.P.Base, IntLit(0), n, n}}
	}
	switch sv.T.Underlying().(type) {
	case *types.Slice:
	default:
		if tp, ok := sv.T.(*types.TypeParam); !ok || coreOf(tp) == nil {
			panic(unsupported("slice expression on %s", sv.T))
		}
	}
	base, off, ln, cp := sv.L[0], sv.L[1], sv.L[2], sv.L[3]
	if x.High != nil {
		hi = e.operand(st, fr, x.High).L[0]
	} else {
		hi = ln
	}
	if x.Max != nil {
		mx = e.operand(st, fr, x.Max).L[0]
	} else {
		mx = cp
	}
	e.obligationPanic(st, "slice-bounds", pos, And(Le(IntLit(0), lo), Le(lo, hi), Le(hi, mx), Le(mx, cp)))
	fr.regs[x] = Val{T: rt, L: []Term{base, Add(off, lo), Sub(hi, lo), Sub(mx, lo)}}
}

func (e *Engine) makeSlice(st *State, t types.Type, ln, cp Term) Val {
	base := st.next
	st.next = e.nameTerm(st, "next", Add(st.next, IntLit(1)))
	et := resolve(elemOfSlice(t), nil)
	// fresh rows hold zero values
	for i, lf := range e.lay.Leaves(et) {
		h := e.getSliceHeap(st, et, i)
		z := e.zeroLeaf(lf)
		row := T(ArrSort(SInt, lf.Sort), "((as const %s) %s)", ArrSort(SInt, lf.Sort), z.S)
		e.setSliceHeap(st, et, i, e.nameTerm(st, e.sliceHeapKey(et, i), Store(h, base, row)))
	}
	return Val{T: t, L: []Term{base, IntLit(0), ln, cp}}
}

func (e *Engine) convert(st *State, v Val, t types.Type) Val {
	src := e.lay.Leaves(v.T)
	dst := e.lay.Leaves(t)
	if len(src) == 1 && len(dst) == 1 {
		a := v.L[0]
		ss, ds := src[0].Sort, dst[0].Sort
		if ss == ds {
			if ss == SInt && !e.lay.bvMode {
				// mathematical integers: conversions between widths are assumed not to overflow
			}
			return Val{T: t, L: []Term{a}, Fn: v.Fn, P: v.P}
		}
		if ss.IsBV() && ds.IsBV() {
			sw, dw := ss.BVWidth(), ds.BVWidth()
			switch {
			case dw == sw:
				return Val{T: t, L: []Term{a}}
			case dw < sw:
				return Val{T: t, L: []Term{T(ds, "((_ extract %d 0) %s)", dw-1, a.S)}}
			default:
				if isSignedInt(v.T) {
					return Val{T: t, L: []Term{T(ds, "((_ sign_extend %d) %s)", dw-sw, a.S)}}
				}
				return Val{T: t, L: []Term{T(ds, "((_ zero_extend %d) %s)", dw-sw, a.S)}}
			}
		}
		if ss.IsBV() && ds.IsFP() {
			if isSignedInt(v.T) {
				return Val{T: t, L: []Term{T(ds, "((_ to_fp %s) RNE %s)", fpDims(ds), a.S)}}
			}
			return Val{T: t, L: []Term{T(ds, "((_ to_fp_unsigned %s) RNE %s)", fpDims(ds), a.S)}}
		}
		return Val{T: t, L: []Term{e.ctx.App("conv_"+sanitize(string(ss))+"_"+sanitize(string(ds)), ds, a)}}
	}
	if len(src) == len(dst) {
		return Val{T: t, L: v.L, Fn: v.Fn, P: v.P}
	}
	panic(unsupported("conversion %s -> %s", v.T, t))
}

// allocIsCell decides whether an Alloc can live in a local cell: its address
// is only dereferenced, field-addressed, captured by closures or passed to
// calls that the engine inlines or models with in/out semantics.
func (e *Engine) allocIsCell(fr *Frame, a *ssa.Alloc) bool {
	if fr.allocCell == nil {
		fr.allocCell = map[*ssa.Alloc]bool{}
	}
	if v, ok := fr.allocCell[a]; ok {
		return v
	}
	ok := e.addrUsesLocal(a, map[ssa.Value]bool{})
	fr.allocCell[a] = ok
	return ok
}

func (e *Engine) addrUsesLocal(v ssa.Value, seen map[ssa.Value]bool) bool {
	if seen[v] {
		return true
	}
	seen[v] = true
	refs := v.Referrers()
	if refs == nil {
		return false
	}
	for _, r := range *refs {
		switch x := r.(type) {
		case *ssa.UnOp:
			if x.Op != token.MUL {
				return false
			}
		case *ssa.Store:
			if x.Val == v {
				return false // address stored somewhere
			}
		case *ssa.FieldAddr:
			if !e.addrUsesLocal(x, seen) {
				return false
			}
		case *ssa.IndexAddr:
			if !e.addrUsesLocal(x, seen) {
				return false
			}
		case *ssa.DebugRef:
		case *ssa.Convert, *ssa.ChangeType:
			return false // the address is converted (e.g. to unsafe.Pointer): it may be stored anywhere
		case *ssa.MakeClosure:
			// captured by reference: fine as long as the closure is used locally
		case ssa.CallInstruction:
			cc := x.Common()
			if cc.IsInvoke() {
				if cc.Value == v {
					continue // method call on the pointer receiver through an interface: not expected
				}
				return false
			}
			if callee, ok := cc.Value.(*ssa.Function); ok {
				body := bodyOf(callee)
				// a pointer passed in a generic or interface-typed value slot is data: it may be stored by the callee
				for i, a := range cc.Args {
					if a == v && i < len(body.Params) {
						pt := body.Params[i].Type()
						if _, isTP := pt.(*types.TypeParam); isTP {
							return false
						}
						if _, isIface := pt.Underlying().(*types.Interface); isIface {
							return false
						}
					}
				}
				c := e.contractFor(callee)
				_ = c
				if len(body.Blocks) > 0 && len(seen) < 64 {
					// the address must not escape through the corresponding parameter of the callee (whether the call
					// is inlined or replaced by the callee's contract: a contract cannot speak about a caller's cell)
					esc := false
					for i, a := range cc.Args {
						if a == v && i < len(body.Params) {
							if !e.addrUsesLocal(body.Params[i], seen) {
								esc = true
							}
						}
					}
					if esc {
						return false
					}
				}
				continue // in/out argument of a contracted callee, or of an inlined one that only dereferences it
			}
			if _, ok := cc.Value.(*ssa.Builtin); ok {
				continue
			}
			return false
		case *ssa.Slice:
			// slicing a local array
			return false
		case *ssa.BinOp:
			// pointer comparison
		case *ssa.If, *ssa.Phi:
			if _, isPhi := r.(*ssa.Phi); isPhi {
				return false
			}
		case *ssa.Return:
			return false
		default:
			return false
		}
	}
	return true
}

var uniqCache = map[*ssa.Function]map[string]ssa.Value{}

// uniqueValues maps a source variable name to its only non-constant SSA value, when it has exactly one.
func (e *Engine) uniqueValues(fn *ssa.Function) map[string]ssa.Value {
	if m, ok := uniqCache[fn]; ok {
		return m
	}
	vals := map[string]map[ssa.Value]bool{}
	bad := map[string]bool{}
	for _, b := range fn.Blocks {
		for _, in := range b.Instrs {
			switch x := in.(type) {
			case *ssa.DebugRef:
				obj := x.Object()
				if obj == nil {
					continue
				}
				if _, ok := obj.(*types.Var); !ok {
					continue
				}
				if x.IsAddr {
					bad[obj.Name()] = true
					continue
				}
				if _, isConst := x.X.(*ssa.Const); isConst {
					continue
				}
				if vals[obj.Name()] == nil {
					vals[obj.Name()] = map[ssa.Value]bool{}
				}
				vals[obj.Name()][x.X] = true
			case *ssa.Phi:
				if x.Comment != "" {
					bad[x.Comment] = true
				}
			}
		}
	}
	m := map[string]ssa.Value{}
	for n, vs := range vals {
		if bad[n] || len(vs) != 1 {
			continue
		}
		for v := range vs {
			m[n] = v
		}
	}
	uniqCache[fn] = m
	return m
}

func isAbstractTP(t types.Type) bool {
	_, ok := t.(*types.TypeParam)
	return ok
}

var allocNameCache = map[*ssa.Function]map[string]*ssa.Alloc{}

// allocNamed returns the (unique) Alloc holding the source variable `name` of fn, if any.
func (e *Engine) allocNamed(fn *ssa.Function, name string) *ssa.Alloc {
	m, ok := allocNameCache[fn]
	if !ok {
		m = map[string]*ssa.Alloc{}
		dup := map[string]bool{}
		for _, b := range fn.Blocks {
			for _, in := range b.Instrs {
				if a, ok := in.(*ssa.Alloc); ok && a.Comment != "" {
					if _, seen := m[a.Comment]; seen {
						dup[a.Comment] = true
					}
					m[a.Comment] = a
				}
			}
		}
		for n := range dup {
			delete(m, n)
		}
		allocNameCache[fn] = m
	}
	return m[name]
}

// findCalleeByName: a function called (or spawned) statically from the root function, by source name.
func (e *Engine) findCalleeByName(name string) *ssa.Function {
	var found *ssa.Function
	var walk func(fn *ssa.Function)
	walk = func(fn *ssa.Function) {
		for _, b := range fn.Blocks {
			for _, in := range b.Instrs {
				if ci, ok := in.(ssa.CallInstruction); ok {
					if callee, ok := ci.Common().Value.(*ssa.Function); ok && shortFuncName(callee) == name {
						found = callee
					}
				}
			}
		}
		for _, af := range fn.AnonFuncs {
			walk(af)
		}
	}
	if e.root != nil {
		walk(bodyOf(e.root))
	}
	return found
}

// loopKind classifies a natural loop by the block comment go/ssa gives its header: range loops over slices, arrays,
// strings, integers and maps are lowered by go/ssa itself (bound evaluated once, index advanced by one / iterator
// advanced) and terminate by construction; `for` loops and range-over-channel loops need a variant.
func loopKind(li *loopInfo) string {
	c := li.header.Comment
	switch {
	case strings.HasPrefix(c, "rangeindex"), strings.HasPrefix(c, "rangeint"):
		return "range-index"
	case strings.HasPrefix(c, "rangeiter"):
		return "range-iter"
	case strings.HasPrefix(c, "rangechan"):
		return "range-chan"
	}
	return "for"
}
