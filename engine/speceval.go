package main

// Evaluation of specification expressions over a symbolic state.

import (
	"strconv"
	"fmt"
	"os"
	"sort"
	"go/token"
	"go/types"
	"strings"

	"golang.org/x/tools/go/ssa"
)

var tokenLSS = token.LSS

type SpecEnv struct {
	e    *Engine
	st   *State // current state
	old  *State // state for old(...)
	fr   *Frame // name resolution (source variables)
	vars map[string]Val
	env  TEnv
	pkg  string
	lets map[string]*Expr
	bound map[string]Val
	tnames map[string]types.Type // explicit type-name bindings (type parameters of an interface)
	inOld bool
	wantCell bool
	preferNames bool // loop invariants: source variables denote their current values
	frNames *Frame // additional frame whose source variables are visible (the closure running inside a spec loop)
	cur  *State // the post-state while evaluating inside old(...)
	freshBase *Term // a callee's contract evaluated at a call site: `fresh` is relative to the allocation counter at the call
}

func (e *Engine) specEnv(st, old *State, fr *Frame) *SpecEnv {
	se := &SpecEnv{e: e, st: st, old: old, fr: fr, env: fr.env}
	if fr.fn != nil && fr.fn.Pkg != nil {
		se.pkg = fr.fn.Pkg.Pkg.Name()
	} else if fr.fn != nil && fr.fn.Parent() != nil && fr.fn.Parent().Pkg != nil {
		se.pkg = fr.fn.Parent().Pkg.Pkg.Name()
	}
	if fr.parent == nil {
		se.vars = e.params
	}
	if c := fr.contract; c != nil {
		e.bindLets(c, se)
	}
	return se
}

func (e *Engine) bindLets(c *Contract, se *SpecEnv) {
	if len(c.Lets) == 0 {
		return
	}
	se.lets = map[string]*Expr{}
	for _, l := range c.Lets {
		se.lets[l.Name] = l.E
	}
}

func (se *SpecEnv) with(name string, v Val) *SpecEnv {
	n := *se
	n.bound = map[string]Val{}
	for k, x := range se.bound {
		n.bound[k] = x
	}
	n.bound[name] = v
	return &n
}

func (e *Engine) evalBool(x *Expr, se *SpecEnv) Term {
	v := e.evalSpec(x, se)
	if len(v.L) != 1 || v.L[0].Sort != SBool {
		panic(unsupported("spec expression %s is not boolean", x))
	}
	return v.L[0]
}

// evalTerm: a spec expression of (mathematical) integer sort, e.g. a loop variant.
func (e *Engine) evalTerm(x *Expr, se *SpecEnv) Term {
	v := e.evalSpec(x, se)
	if len(v.L) != 1 || v.L[0].Sort != SInt {
		panic(unsupported("spec expression %s is not an integer", x))
	}
	return v.L[0]
}

var boolT = types.Typ[types.Bool]
var intT = types.Typ[types.Int]

func mkBool(t Term) Val { return Val{T: boolT, L: []Term{t}} }
func mkInt(t Term) Val  { return Val{T: intT, L: []Term{t}} }

// specType resolves a type name used in a quantifier or spec function.
func (e *Engine) specType(name string, se *SpecEnv) types.Type {
	if t, ok := se.tnames[name]; ok {
		return t
	}
	if _, ok := e.cs.ADTs[name]; ok {
		e.declareADT(name, se)
		return e.adtType(name)
	}
	switch name {
	case "", "int":
		return intT
	case "bool":
		return boolT
	case "string":
		return types.Typ[types.String]
	}
	// type parameter of the function in scope
	for fr := se.fr; fr != nil; fr = fr.parent {
		if fr.fn == nil {
			continue
		}
		f := fr.fn
		for f != nil {
			tps := f.TypeParams()
			for i := 0; tps != nil && i < tps.Len(); i++ {
				if tps.At(i).Obj().Name() == name {
					return resolve(tps.At(i), se.env)
				}
			}
			f = f.Parent()
		}
	}
	if strings.HasPrefix(name, "seq_") {
		return nil
	}
	// named type of the package
	if p := e.pkgs[se.pkg]; p != nil {
		if m := p.Members[name]; m != nil {
			if tn, ok := m.(*ssa.Type); ok {
				t := tn.Type()
				// a generic named type: instantiate it with the type parameters of the function in scope (same arity,
				// positionally: readOnly[K, V] inside a method of Map[K, V])
				if nt, ok := t.(*types.Named); ok && nt.TypeParams().Len() > 0 {
					for fr := se.fr; fr != nil; fr = fr.parent {
						if fr.fn == nil || fr.fn.TypeParams() == nil || fr.fn.TypeParams().Len() != nt.TypeParams().Len() {
							continue
						}
						var targs []types.Type
						for i := 0; i < fr.fn.TypeParams().Len(); i++ {
							targs = append(targs, fr.fn.TypeParams().At(i))
						}
						if inst, err := types.Instantiate(nil, nt, targs, false); err == nil {
							return resolve(inst, se.env)
						}
					}
				}
				return t
			}
		}
	}
	panic(unsupported("unknown spec type %q", name))
}

// lookupName resolves a name; when it is unknown, a variable that was merely renamed since the contract was written
// (names.go) is found under its new name.
func (e *Engine) lookupName(name string, se *SpecEnv) (Val, bool) {
	if v, ok := e.lookupName0(name, se); ok {
		return v, true
	}
	try := func(fn *ssa.Function) (Val, bool) {
		if fn == nil {
			return Val{}, false
		}
		if nn, ok := aliasesOf(fn)[name]; ok {
			if v, ok := e.lookupName0(nn, se); ok {
				e.note("variable %s of %s is called %s now (pure renaming: the contract's name is treated as an alias)", name, fn.Name(), nn)
				return v, true
			}
		}
		return Val{}, false
	}
	for fN := se.frNames; fN != nil; fN = fN.parent {
		if v, ok := try(fN.fn); ok {
			return v, true
		}
	}
	for f := se.fr; f != nil; f = f.parent {
		if v, ok := try(f.fn); ok {
			return v, true
		}
	}
	return try(e.root)
}

func (e *Engine) lookupName0(name string, se *SpecEnv) (Val, bool) {
	if v, ok := se.bound[name]; ok {
		return v, true
	}
	if !se.preferNames {
		if v, ok := se.vars[name]; ok {
			return v, true
		}
	}
	for fN := se.frNames; fN != nil && fN != se.fr; fN = fN.parent {
		if nb, ok := fN.names[name]; ok {
			if nb.IsAddr {
				loc := e.locOf(nb.V)
				if loc.Kind != LocCell {
					return e.loadLoc(se.st, loc), true
				}
				if _, live := se.st.cells[loc.Cell]; live {
					return e.loadLoc(se.st, loc), true
				}
			} else {
				return nb.V, true
			}
		}
	}
	if se.fr != nil {
		if nb, ok := se.fr.names[name]; ok {
			if nb.IsAddr {
				st := se.st
				loc := e.locOf(nb.V)
				if loc.Kind == LocCell {
					if _, live := st.cells[loc.Cell]; !live {
						// the variable's cell did not exist in that (old) state: a parameter denotes its entry value
						if v, ok := se.vars[name]; ok {
							return v, true
						}
						panic(unsupported("variable %s does not exist in the old state", name))
					}
				}
				return e.loadLoc(st, loc), true
			}
			return nb.V, true
		}
	}
	if v, ok := se.vars[name]; ok {
		return v, true
	}
	if se.fr != nil && se.fr.fn != nil {
		if u := e.uniqueValues(se.fr.fn)[name]; u != nil {
			if v, ok := se.fr.regs[u]; ok {
				return v, true
			}
		}
	}
	if v, ok := se.st.ghost[name]; ok {
		return v, true
	}
	if se.cur != nil {
		// ghost results of assumed contracts (e.g. sortperm) are not state: they mean the same inside old(...)
		if v, ok := se.cur.ghost[name]; ok && v.G == nil {
			return v, true
		}
	}
	if gv, ok := e.cs.GhostVars[name]; ok {
		return e.ghostArray(se.st, gv, se), true
	}
	// spec-loop iterators: visited / niter (innermost), visited_N / niter_N (rangecall N), and after the call
	// lastvisited / lastniter
	if n := len(se.st.specIters); n > 0 {
		switch name {
		case "visited":
			return Val{T: nil, L: []Term{se.st.specIters[n-1].visited}}, true
		case "niter":
			return mkInt(se.st.specIters[n-1].count), true
		}
	}
	for _, it := range se.st.specIters {
		if name == fmt.Sprintf("visited_%d", it.ord) {
			return Val{T: nil, L: []Term{it.visited}}, true
		}
		if name == fmt.Sprintf("niter_%d", it.ord) {
			return mkInt(it.count), true
		}
	}
	if se.st.lastIter != nil {
		switch name {
		case "lastvisited":
			return Val{T: nil, L: []Term{se.st.lastIter.visited}}, true
		case "lastniter":
			return mkInt(se.st.lastIter.count), true
		}
	}
	if se.fr != nil && se.fr.iterOf != nil {
		switch name {
		case "visited":
			if t, ok := se.st.iter[se.fr.iterOf]; ok {
				return Val{T: nil, L: []Term{t}}, true
			}
		case "itermod":
			if t, ok := se.st.iterMod[se.fr.iterOf]; ok {
				return mkBool(t), true
			}
		case "niter":
			if t, ok := se.st.iterCount[se.fr.iterOf]; ok {
				return mkInt(t), true
			}
		}
	}
	return Val{}, false
}

func (e *Engine) evalSpec(x *Expr, se *SpecEnv) Val {
	switch x.Op {
	case "int":
		if x.Name == "u64" {
			return mkInt(Term{fmt.Sprintf("%d", uint64(x.Int)), SInt})
		}
		return mkInt(IntLit(x.Int))
	case "bool":
		if x.Name == "true" {
			return mkBool(True)
		}
		return mkBool(False)
	case "nil":
		return Val{T: types.Typ[types.UntypedNil], L: []Term{IntLit(0)}}
	case "ident":
		if v, ok := e.lookupName(x.Name, se); ok {
			if os.Getenv("GOVC_TRACE_NAMES") != "" {
				fmt.Fprintf(os.Stderr, "[name] %s -> %v\n", x.Name, v)
			}
			return v
		}
		if l, ok := se.lets[x.Name]; ok {
			return e.evalSpec(l, se)
		}
		if e.root != nil && e.root.Pkg != nil && se.fr != nil {
			if g, ok := e.root.Pkg.Members[x.Name].(*ssa.Global); ok {
				// a package-level variable: its current value
				pv := e.globalAddr(g, se.fr)
				return e.loadLoc(se.st, e.locOf(pv))
			}
		}
		if ad, c := e.findCtor(x.Name); ad != nil && len(c.Fields) == 0 {
			e.declareADT(ad.Name, se)
			return Val{T: e.adtType(ad.Name), L: []Term{{x.Name, Sort(ad.Name)}}}
		}
		if strings.HasPrefix(x.Name, "K_") {
			return mkInt(IntLit(int64(kindCode(strings.TrimPrefix(x.Name, "K_")))))
		}
		switch x.Name {
		case "nact":
			return mkInt(IntLit(int64(len(se.st.actionLog))))
		case "next0":
			return mkInt(e.next0)
		case "next":
			return mkInt(se.st.next)
		}
		panic(unsupported("unknown name %q in spec (known: %s)", x.Name, e.knownNames(se)))
	case "old":
		n := *se
		if n.cur == nil {
			n.cur = se.st
		}
		n.st = se.old
		n.inOld = true
		if se.fr != nil && se.fr.parent == nil {
			// locals of the root frame keep their current SSA values; memory is read in the old state
		}
		return e.evalSpec(x.Args[0], &n)
	case "unary":
		if x.Name == "&" {
			// &v: the address of an addressable local variable
			if x.Args[0].Op == "ident" && se.fr != nil {
				for _, f := range []*Frame{se.frNames, se.fr} {
					if f == nil {
						continue
					}
					if nb, ok := f.names[x.Args[0].Name]; ok && nb.IsAddr {
						return nb.V
					}
				}
			}
			panic(unsupported("&%s: not an addressable local variable", x.Args[0]))
		}
		a := e.evalSpec(x.Args[0], se)
		switch x.Name {
		case "!":
			return mkBool(Not(a.L[0]))
		case "-":
			if a.L[0].Sort == SInt {
				return mkInt(T(SInt, "(- %s)", a.L[0].S))
			}
			if a.L[0].Sort.IsBV() {
				return Val{T: a.T, L: []Term{T(a.L[0].Sort, "(bvneg %s)", a.L[0].S)}}
			}
			if a.L[0].Sort.IsFP() {
				return Val{T: a.T, L: []Term{T(a.L[0].Sort, "(fp.neg %s)", a.L[0].S)}}
			}
			return Val{T: a.T, L: []Term{e.ctx.App("neg_"+string(a.L[0].Sort), a.L[0].Sort, a.L[0])}}
		case "*":
			return e.loadLoc(se.st, e.locOf(a))
		}
	case "binary":
		return e.evalBinary(x, se)
	case "forall", "exists":
		var decls []string
		inner := se
		for _, bv := range x.Vars {
			t := e.specType(bv.Type, se)
			ls := e.lay.Leaves(t)
			v := Val{T: t, L: make([]Term, len(ls))}
			for i, lf := range ls {
				nm := "q_" + bv.Name
				if len(ls) > 1 {
					nm = fmt.Sprintf("q_%s_%d", bv.Name, i)
				}
				v.L[i] = Term{nm, lf.Sort}
				decls = append(decls, fmt.Sprintf("(%s %s)", nm, lf.Sort))
			}
			inner = inner.with(bv.Name, v)
		}
		body := e.evalBool(x.Args[0], inner)
		pat := ""
		for _, grp := range x.Trigs {
			var ps []string
			for _, tr := range grp {
				tv := e.evalSpec(tr, inner)
				if len(tv.L) > 0 && strings.Contains(tv.L[0].S, "q_") {
					ps = append(ps, tv.L[0].S)
				}
			}
			if len(ps) > 0 {
				pat += " :pattern (" + strings.Join(ps, " ") + ")"
			}
		}
		if pat == "" {
			// automatic trigger: one idx(·) term per bound variable, when every variable indexes an element
			var ps []string
			ok := true
			for _, bv := range x.Vars {
				t := "(idx q_" + bv.Name + ")"
				if strings.Contains(body.S, t) {
					ps = append(ps, t)
				} else {
					ok = false
				}
			}
			if ok && len(ps) > 0 {
				pat = " :pattern (" + strings.Join(ps, " ") + ")"
			}
		}
		if pat != "" {
			return mkBool(T(SBool, "(%s (%s) (! %s%s))", x.Op, strings.Join(decls, " "), body.S, pat))
		}
		return mkBool(T(SBool, "(%s (%s) %s)", x.Op, strings.Join(decls, " "), body.S))
	case "index":
		a := e.evalSpec(x.Args[0], se)
		i := e.evalSpec(x.Args[1], se)
		return e.specIndex(a, i, se)
	case "slice":
		a := e.evalSpec(x.Args[0], se)
		lo, hi := IntLit(0), a.L[2]
		if x.Args[1] != nil {
			lo = e.evalSpec(x.Args[1], se).L[0]
		}
		if x.Args[2] != nil {
			hi = e.evalSpec(x.Args[2], se).L[0]
		}
		return Val{T: a.T, L: []Term{a.L[0], Add(a.L[1], lo), Sub(hi, lo), Sub(a.L[3], lo)}}
	case "field":
		a := e.evalSpec(x.Args[0], se)
		return e.specField(a, x.Name, se)
	case "call":
		return e.evalCall(x, se)
	}
	panic(unsupported("spec expression %s", x))
}

func (e *Engine) knownNames(se *SpecEnv) string {
	var ns []string
	for n := range se.vars {
		ns = append(ns, n)
	}
	if se.fr != nil {
		ns = append(ns, sortedNames(se.fr.names)...)
	}
	return strings.Join(ns, " ")
}

func (e *Engine) specIndex(a, i Val, se *SpecEnv) Val {
	if a.T == nil && len(a.L) == 1 {
		// ghost array (the visited set of a map iteration, a declared ghost variable, ...)
		sel := Select(a.L[0], i.L[0])
		if strings.HasPrefix(string(sel.Sort), "(Array ") {
			return Val{T: nil, L: []Term{sel}, G: a.G}
		}
		if a.G != nil {
			return Val{T: e.specType(a.G.Type, se), L: []Term{sel}}
		}
		if sel.Sort == SInt {
			return mkInt(sel)
		}
		return mkBool(sel)
	}
	if mapTypeOf(a.T) != nil {
		return e.mapValueAt(se.st, a, i)
	}
	switch at := a.T.Underlying().(type) {
	case *types.Array:
		n := len(e.lay.Leaves(at.Elem()))
		out := Val{T: at.Elem(), L: make([]Term, n)}
		for k := 0; k < n; k++ {
			t := a.L[(int(at.Len())-1)*n+k]
			for j := int(at.Len()) - 2; j >= 0; j-- {
				t = Ite(Eq(i.L[0], IntLit(int64(j))), a.L[j*n+k], t)
			}
			out.L[k] = t
		}
		return out
	case *types.Map:
		return e.mapValueAt(se.st, a, i)
	}
	if len(a.L) == 4 {
		idx := i.L[0]
		return e.loadElem(se.st, a, idx)
	}
	if tp, ok := a.T.(*types.TypeParam); ok {
		if _, isMap := coreOf(tp).(*types.Map); isMap {
			return e.mapValueAt(se.st, a, i)
		}
	}
	panic(unsupported("spec index on %s", a.T))
}

func (e *Engine) specField(a Val, name string, se *SpecEnv) Val {
	t := a.T
	// automatic dereference
	var ploc *Loc
	if pt, ok := t.Underlying().(*types.Pointer); ok {
		ploc = e.locOf(a)
		a = e.loadLoc(se.st, ploc)
		t = pt.Elem()
		a.T = t
	}
	stt, ok := t.Underlying().(*types.Struct)
	if !ok {
		panic(unsupported("field %s of non-struct %s", name, t))
	}
	for i := 0; i < stt.NumFields(); i++ {
		if stt.Field(i).Name() == name {
			off, n := e.lay.fieldRange(stt, i)
			if ploc != nil && ploc.Kind == LocObj {
				// a named struct embedded by value lives at a sub-reference of the enclosing object (exactly as the
				// code's &x.f does): read it from there
				ft := resolve(stt.Field(i).Type(), se.env)
				if _, isStruct := ft.Underlying().(*types.Struct); isStruct {
					if _, named := ft.(*types.Named); named {
						sub := e.subRef(ploc.Ref, ploc.Root, ploc.Off+off)
						v := e.loadLoc(se.st, e.locOf(Val{T: types.NewPointer(ft), L: []Term{sub}}))
						v.T = ft
						return v
					}
				}
			}
			return Val{T: resolve(stt.Field(i).Type(), se.env), L: a.L[off : off+n]}
		}
	}
	panic(unsupported("no field %s in %s", name, t))
}

func (e *Engine) evalBinary(x *Expr, se *SpecEnv) Val {
	switch x.Name {
	case "&&":
		return mkBool(And(e.evalBool(x.Args[0], se), e.evalBool(x.Args[1], se)))
	case "||":
		return mkBool(Or(e.evalBool(x.Args[0], se), e.evalBool(x.Args[1], se)))
	case "==>":
		return mkBool(Implies(e.evalBool(x.Args[0], se), e.evalBool(x.Args[1], se)))
	case "<==>":
		return mkBool(Eq(e.evalBool(x.Args[0], se), e.evalBool(x.Args[1], se)))
	}
	a := e.evalSpec(x.Args[0], se)
	b := e.evalSpec(x.Args[1], se)
	if (a.T == nil && a.L == nil) || (b.T == nil && b.L == nil) {
		// a value of an action that does not exist on this path: the comparison is unconstrained
		return mkBool(e.ctx.Fresh("undef", SBool))
	}
	// coerce literals to the other operand's sort
	a, b = e.coerce(a, b)
	var op token.Token
	switch x.Name {
	case "==":
		op = token.EQL
	case "!=":
		op = token.NEQ
	case "<":
		op = token.LSS
	case "<=":
		op = token.LEQ
	case ">":
		op = token.GTR
	case ">=":
		op = token.GEQ
	case "+":
		op = token.ADD
	case "-":
		op = token.SUB
	case "*":
		op = token.MUL
	case "/":
		op = token.QUO
	case "%":
		op = token.REM
	default:
		panic(unsupported("spec operator %s", x.Name))
	}
	rt := a.T
	switch op {
	case token.EQL, token.NEQ, token.LSS, token.LEQ, token.GTR, token.GEQ:
		rt = boolT
	}
	if op == token.QUO || op == token.REM {
		// spec division is total: Go's truncated division, no obligation
		if a.L[0].Sort == SInt {
			q := e.truncDiv(a.L[0], b.L[0])
			if op == token.QUO {
				return mkInt(q)
			}
			return mkInt(Sub(a.L[0], Mul(b.L[0], q)))
		}
	}
	dummy := NewState()
	dummy.dead = true
	return e.binop(dummy, op, a, b, rt, "spec")
}

// coerce adapts untyped spec literals (Int sorted) to bit-vector / FP / other operands.
func (e *Engine) coerce(a, b Val) (Val, Val) {
	if len(a.L) == 1 && len(b.L) == 1 && a.L[0].Sort != b.L[0].Sort {
		if a.L[0].Sort == SInt {
			if c, ok := e.litTo(a.L[0], b.L[0].Sort); ok {
				return Val{T: b.T, L: []Term{c}}, b
			}
		}
		if b.L[0].Sort == SInt {
			if c, ok := e.litTo(b.L[0], a.L[0].Sort); ok {
				return a, Val{T: a.T, L: []Term{c}}
			}
		}
	}
	// nil against composite (slice/interface) values
	if len(a.L) != len(b.L) {
		if _, ok := a.T.(*types.Basic); ok && a.T == types.Typ[types.UntypedNil] {
			return e.zeroVal(b.T), b
		}
		if _, ok := b.T.(*types.Basic); ok && b.T == types.Typ[types.UntypedNil] {
			return a, e.zeroVal(a.T)
		}
	}
	return a, b
}

func (e *Engine) litTo(lit Term, s Sort) (Term, bool) {
	var n int64
	str := lit.S
	neg := false
	if strings.HasPrefix(str, "(- ") {
		neg = true
		str = strings.TrimSuffix(strings.TrimPrefix(str, "(- "), ")")
	}
	var u uint64
	if _, err := fmt.Sscanf(str, "%d", &u); err != nil || strings.ContainsAny(str, " (") {
		return Term{}, false
	}
	n = int64(u)
	if neg {
		n = -n
	}
	switch {
	case s.IsBV():
		return BVLit(s.BVWidth(), uint64(n)), true
	case s.IsFP():
		if n == 0 {
			return Term{"(_ +zero " + fpDims(s) + ")", s}, true
		}
		return T(s, "((_ to_fp %s) RNE %d.0)", fpDims(s), n), true
	case s == "Float":
		if n == 0 {
			return e.ctx.Const("zero_Float", s), true
		}
	case s == "Cplx":
		if n == 0 {
			return e.ctx.Const("zero_Cplx", s), true
		}
		if n == 1 {
			return e.ctx.Const("c_one", s), true
		}
	}
	return Term{}, false
}

func (e *Engine) evalCall(x *Expr, se *SpecEnv) Val {
	arg := func(i int) Val { return e.evalSpec(x.Args[i], se) }
	switch x.Name {
	case "len":
		a := arg(0)
		if mapTypeOf(a.T) != nil {
			return mkInt(e.mapCard(se.st, a))
		}
		switch a.T.Underlying().(type) {
		case *types.Chan:
			return mkInt(e.chanLen(se.st, a))
		}
		if len(a.L) == 4 {
			return mkInt(a.L[2])
		}
		if tp, ok := a.T.(*types.TypeParam); ok {
			if _, isMap := coreOf(tp).(*types.Map); isMap {
				return mkInt(e.mapCard(se.st, a))
			}
		}
		panic(unsupported("spec len of %s", a.T))
	case "cap":
		return mkInt(arg(0).L[3])
	case "base":
		return mkInt(arg(0).L[0])
	case "off":
		return mkInt(arg(0).L[1])
	case "ref":
		if a := arg(0); len(a.L) > 0 {
			return mkInt(a.L[0])
		}
		return mkInt(IntLit(0))
	case "fresh":
		// allocated by this call: reference / base at or above the entry allocation counter
		a := arg(0)
		if a.T == nil || len(a.L) == 0 {
			return mkBool(False) // no such value on this path (e.g. an action argument that does not exist)
		}
		if _, isPtr := a.T.Underlying().(*types.Pointer); isPtr || mapTypeOf(a.T) != nil {
			return mkBool(Ge(e.allocID(a.L[0]), se.freshFrom()))
		}
		return mkBool(Ge(a.L[0], se.freshFrom()))
	case "allocated":
		a := arg(0)
		return mkBool(And(Lt(IntLit(0), a.L[0]), Lt(a.L[0], se.st.next)))
	case "ite":
		c := e.evalBool(x.Args[0], se)
		a, b := e.coerce(arg(1), arg(2))
		out := Val{T: a.T, L: make([]Term, len(a.L))}
		for i := range a.L {
			out.L[i] = Ite(c, a.L[i], b.L[i])
		}
		return out
	case "min", "max":
		a, b := arg(0), arg(1)
		c := Le(a.L[0], b.L[0])
		if x.Name == "max" {
			c = Ge(a.L[0], b.L[0])
		}
		return mkInt(Ite(c, a.L[0], b.L[0]))
	case "abs":
		a := arg(0)
		return mkInt(Ite(Ge(a.L[0], IntLit(0)), a.L[0], T(SInt, "(- %s)", a.L[0].S)))
	case "b2i":
		return mkInt(Ite(e.evalBool(x.Args[0], se), IntLit(1), IntLit(0)))
	case "zero":
		// zero(T) or zero(expr): the zero value of a type
		if x.Args[0].Op == "ident" {
			if _, ok := e.lookupName(x.Args[0].Name, se); !ok {
				return e.zeroVal(e.specType(x.Args[0].Name, se))
			}
		}
		return e.zeroVal(arg(0).T)
	case "same":
		// same(s1, s2): identical slice headers (base, off, len)
		a, b := arg(0), arg(1)
		return mkBool(And(Eq(a.L[0], b.L[0]), Eq(a.L[1], b.L[1]), Eq(a.L[2], b.L[2])))
	case "window":
		// window(r, s, lo, hi): r is exactly the sub-slice s[lo:hi] (same memory)
		r, s := arg(0), arg(1)
		lo, hi := arg(2).L[0], arg(3).L[0]
		return mkBool(And(Eq(r.L[0], s.L[0]), Eq(r.L[1], Add(s.L[1], lo)), Eq(r.L[2], Sub(hi, lo))))
	case "cdiv":
		a, b := arg(0).L[0], arg(1).L[0]
		// ceiling division for a >= 0, b > 0
		return mkInt(e.truncDiv(Sub(Add(a, b), IntLit(1)), b))
	case "toint":
		a := arg(0)
		if a.L[0].Sort.IsBV() {
			return mkInt(e.bvToInt(a.L[0], isSignedInt(a.T)))
		}
		return mkInt(a.L[0])
	case "loglen":
		return mkInt(e.logLen(se.st, e.logKey(x.Args[0].Name, se)))
	case "logarg":
		// logarg(cb, i, k): argument i of the k-th invocation of callback cb
		name := e.logKey(x.Args[0].Name, se)
		l, ok := se.st.logs[name]
		if !ok {
			l = e.logFromSig(se.st, name)
			if l == nil {
				panic(unsupported("no call log for %s", name))
			}
		}
		ai := int(x.Args[1].Int)
		k := arg(2).L[0]
		out := Val{T: l.ArgT[ai], L: make([]Term, len(l.Args[ai]))}
		for li, arr := range l.Args[ai] {
			out.L[li] = Select(arr, k)
		}
		return out
	case "hasmethod", "dyncall":
		// hasmethod(v, M): the dynamic type of v (boxed as `any` when v is not an interface) has the methods of the
		// interface type with method M that the function asserts to; dyncall(v, M): the result of v.M()
		v := arg(0)
		if len(v.L) != 2 || !types.IsInterface(v.T) || isTypeParam(v.T) {
			v = e.makeInterface(se.st, v, types.NewInterfaceType(nil, nil))
		}
		mname := x.Args[1].Name
		at, msig := e.assertedIfaceWith(mname)
		if at == nil {
			panic(unsupported("%s: the function asserts to no interface type with a method %s", x.Name, mname))
		}
		if x.Name == "hasmethod" {
			return mkBool(And(Not(Eq(v.L[0], IntLit(0))), e.implementsTerm(at, v.L[0])))
		}
		return e.dynCall(mname, v, resolve(msig.Results().At(0).Type(), se.env))
	case "timerarg":
		// timerarg(): the duration passed to the (first) time.NewTimer call on this path, or -1 when there is none
		log := se.st.actionLog
		if se.cur != nil {
			log = se.cur.actionLog
		}
		for _, a := range log {
			if a.Kind == "TimerNew" && len(a.Args) > 0 {
				return mkInt(e.toInt(a.Args[0]))
			}
		}
		return mkInt(IntLit(-1))
	case "logsucc":
		// logsucc(f): how many of the logged calls of f returned true
		name := e.logKey(x.Args[0].Name, se)
		if l, ok := se.st.logs[name]; ok {
			return mkInt(e.logSucc(l))
		}
		return mkInt(IntLit(0))
	case "loglenbefore":
		// loglenbefore(f, i): how many calls of f had been logged when action i was performed
		it := e.evalSpec(x.Args[1], se).L[0]
		iv, okc := constInt(it.S)
		log := se.st.actionLog
		if se.cur != nil {
			log = se.cur.actionLog
		}
		if !okc || iv < 0 || iv >= len(log) {
			return mkInt(IntLit(-1))
		}
		return mkInt(e.logLen(log[iv].Pre, e.logKey(x.Args[0].Name, se)))
	case "logiter":
		// logiter(f, loop, k): which element the range loop `loop` of this function was visiting at the k-th logged call of f
		name := e.logKey(x.Args[0].Name, se)
		l, ok := se.st.logs[name]
		if !ok {
			l = e.logFromSig(se.st, name)
			if l == nil {
				panic(unsupported("no call log for %s", name))
			}
		}
		d := int(x.Args[1].Int)
		n := e.numRootLoops()
		if d < 0 || d >= n || len(l.Args) < n {
			panic(unsupported("logiter(%s, %d): the function has %d loops", name, d, n))
		}
		return mkInt(Select(l.Args[len(l.Args)-n+d][0], arg(2).L[0]))
	case "inv":
		return e.evalTypeInv(arg(0), se)
	case "unchanged":
		return mkBool(e.unchangedAll(se))
	case "wf":
		return mkBool(e.wellFormed(arg(0), se.st.next))
	case "param":
		// param(x): the entry value of parameter x (when a local variable shadows it)
		if se.fr != nil && se.fr.parent != nil {
			if v, ok := se.vars[x.Args[0].Name]; ok {
				return v
			}
		}
		if v, ok := e.params[x.Args[0].Name]; ok {
			return v
		}
		panic(unsupported("param(%s): no such parameter", x.Args[0].Name))
	case "isnan":
		a := arg(0)
		if a.L[0].Sort.IsFP() {
			return mkBool(T(SBool, "(fp.isNaN %s)", a.L[0].S))
		}
		return mkBool(False)
	case "absw":
		// absw(v): the magnitude of an integer as a (w+1)-bit unsigned quantity (never overflows)
		a := arg(0)
		t := a.L[0]
		if !t.Sort.IsBV() {
			return mkInt(Ite(Ge(t, IntLit(0)), t, T(SInt, "(- %s)", t.S)))
		}
		w := t.Sort.BVWidth()
		ws := BV(65)
		var wide Term
		if isSignedInt(a.T) && !e.isUnsigned(a.T) {
			wide = T(ws, "((_ sign_extend %d) %s)", 65-w, t.S)
		} else {
			wide = T(ws, "((_ zero_extend %d) %s)", 65-w, t.S)
		}
		mag := T(ws, "(ite (bvslt %s (_ bv0 65)) (bvneg %s) %s)", wide.S, wide.S, wide.S)
		return Val{T: types.Typ[types.Uint64], L: []Term{mag}}
	case "at":
		// at(s, p): the element of s's backing array at absolute position p (no offset arithmetic);
		// used with inrange(s, p) for position-based quantifiers whose trigger matches any read of the row
		sv := arg(0)
		pos := arg(1).L[0]
		et := resolve(elemOfSlice(sv.T), nil)
		ls := e.lay.Leaves(et)
		out := Val{T: et, L: make([]Term, len(ls))}
		for i := range ls {
			out.L[i] = Select(Select(e.getSliceHeap(se.st, et, i), sv.L[0]), pos)
		}
		return out
	case "inrange":
		sv := arg(0)
		pos := arg(1).L[0]
		return mkBool(And(Le(sv.L[1], pos), Lt(pos, Add(sv.L[1], sv.L[2]))))
	case "ident":
		// ident(a, b): structural identity (for floats: same bit pattern class, NaN included), unlike Go's ==
		a, b := e.coerce(arg(0), arg(1))
		var cs []Term
		for i := range a.L {
			cs = append(cs, T(SBool, "(= %s %s)", a.L[i].S, b.L[i].S))
		}
		return mkBool(And(cs...))
	case "nth":
		// nth(t, i): component i of a tuple-valued expression (e.g. a multi-result callback)
		tv := arg(0)
		i := int(x.Args[1].Int)
		tt, ok := tv.T.(*types.Tuple)
		if !ok {
			panic(unsupported("nth of non-tuple %s", tv.T))
		}
		off := 0
		for j := 0; j < i; j++ {
			off += len(e.lay.Leaves(resolve(tt.At(j).Type(), nil)))
		}
		ft := resolve(tt.At(i).Type(), nil)
		return Val{T: ft, L: tv.L[off : off+len(e.lay.Leaves(ft))]}
	case "has":
		// has(m, k): key k is present in map m
		return mkBool(e.mapHas(se.st, arg(0), arg(1)))
	case "apply":
		// apply(f, args...): the value the pure function value f returns for these arguments
		fv := arg(0)
		var as []Val
		for i := 1; i < len(x.Args); i++ {
			as = append(as, arg(i))
		}
		return e.applyCallbackPure(fv, "fnval", as, se)
	case "addr":
		// addr(p.f): pointer to the struct embedded by value in field f of *p (a first-class sub-object reference)
		fe := x.Args[0]
		if fe.Op != "field" {
			panic(unsupported("addr() expects a field expression"))
		}
		base := e.evalSpec(fe.Args[0], se)
		loc := e.locOf(base)
		stt, ok := loc.T.Underlying().(*types.Struct)
		if !ok {
			panic(unsupported("addr(): %s is not a struct", loc.T))
		}
		for i := 0; i < stt.NumFields(); i++ {
			if stt.Field(i).Name() == fe.Name {
				off, _ := e.lay.fieldRange(stt, i)
				ft := resolve(stt.Field(i).Type(), se.env)
				return Val{T: types.NewPointer(ft), L: []Term{e.subRef(loc.Ref, loc.Root, loc.Off+off)}}
			}
		}
		panic(unsupported("addr(): no field %s", fe.Name))
	case "shufperm":
		// shufperm(src, n): the permutation rand's Shuffle applies for generator state src (uninterpreted)
		return Val{T: nil, L: []Term{e.ctx.App("shufperm", ArrSort(SInt, SInt), arg(0).L[0], arg(1).L[0])}}
	case "randstate":
		return mkInt(e.ctx.App("randstate", SInt, arg(0).L[0]))
	case "sameperm":
		return mkBool(T(SBool, "(= %s %s)", arg(0).L[0].S, arg(1).L[0].S))
	case "memrow":
		// memrow(s): the membership array (element -> bool) of set s in the current state
		m := e.setMapOf(se.st, arg(0))
		mi := e.mapInfo(m.T)
		e.touchMap(se.st, mi)
		return Val{T: nil, L: []Term{Select(e.mapDom(se.st, mi), m.L[0])}}
	case "setof":
		// setof(slice): the membership array of the elements of a slice
		sv := arg(0)
		et := resolve(elemOfSlice(sv.T), nil)
		ls := e.lay.Leaves(et)
		if len(ls) != 1 {
			panic(unsupported("setof over composite elements"))
		}
		row := Select(e.getSliceHeap(se.st, et, 0), sv.L[0])
		arr := e.ctx.DefArray("setof", ls[0].Sort, SBool, func(x Term) Term {
			return T(SBool, "(exists ((q_m Int)) (! (and (<= 0 q_m) (< q_m %s) (= (select %s (+ %s (idx q_m))) %s)) :pattern ((idx q_m))))", sv.L[2].S, row.S, sv.L[1].S, x.S)
		})
		e.idxWrap(Term{"x", SInt})
		return Val{T: nil, L: []Term{arr}}
	case "actkind", "actobj", "actarg", "actres":
		// the index must evaluate to a literal on this path (e.g. 0, nact - 1)
		it := e.evalSpec(x.Args[0], se).L[0]
		iv, okc := constInt(it.S)
		if !okc {
			panic(unsupported("%s: the action index %q is not a constant on this path", x.Name, it.S))
		}
		i := iv
		log := se.st.actionLog
		if se.cur != nil {
			log = se.cur.actionLog
		}
		if i < 0 || i >= len(log) {
			// no such action on this path: an impossible kind, a null object, unconstrained values
			switch x.Name {
			case "actkind":
				return mkInt(IntLit(-1))
			case "actobj":
				return mkInt(IntLit(0))
			}
			return Val{T: nil, L: nil}
		}
		a := log[i]
		switch x.Name {
		case "actkind":
			return mkInt(IntLit(int64(kindCode(a.Kind))))
		case "actobj":
			return mkInt(a.Obj)
		case "actarg":
			j := int(x.Args[1].Int)
			if j >= len(a.Args) {
				return Val{T: nil, L: nil}
			}
			return a.Args[j]
		default:
			j := int(x.Args[1].Int)
			if j >= len(a.Res) {
				return Val{T: nil, L: nil}
			}
			return a.Res[j]
		}
	case "chlen", "chcap", "chclosed", "chhead", "chtail":
		c := arg(0).L[0]
		switch x.Name {
		case "chlen":
			return mkInt(Sub(e.chTail(se.st, c), e.chHead(se.st, c)))
		case "chcap":
			return mkInt(e.chCap(c))
		case "chclosed":
			return mkBool(e.chClosed(se.st, c))
		case "chhead":
			return mkInt(e.chHead(se.st, c))
		}
		return mkInt(e.chTail(se.st, c))
	case "chat":
		// chat(ch, p): the value handed to ch at history position p
		cv := arg(0)
		return e.chanAt(se.st, cv.L[0], resolve(chanElem(cv.T), se.env), arg(1).L[0])
	case "ctxdone":
		// ctxdone(ctx): the channel ctx.Done() returns
		cv := arg(0)
		return Val{T: types.NewChan(types.RecvOnly, types.NewStruct(nil, nil)), L: []Term{e.ctx.App("ctxdone", SInt, cv.L[len(cv.L)-1])}}
	case "chowner":
		return mkInt(e.chOwner(arg(0).L[0]))
	case "envchan":
		return mkBool(e.chEnv(arg(0).L[0]))
	case "nacts":
		// nacts(K): how many actions of kind K this call performed; nacts(K, obj): on that object.
		// K_ChanRecv counts receives that took a value, K_ChanRecvClosed those that found the channel closed and drained.
		kc := e.evalSpec(x.Args[0], se).L[0]
		var obj *Term
		if len(x.Args) > 1 {
			o := arg(1).L[0]
			obj = &o
		}
		log := se.st.actionLog
		if se.cur != nil {
			log = se.cur.actionLog
		}
		sum := IntLit(0)
		for _, a := range log {
			conds := []Term{}
			switch {
			case a.Kind == "ChanRecv":
				okT := a.Res[1].L[0]
				conds = append(conds, Or(And(Eq(kc, IntLit(int64(kindCode("ChanRecv")))), okT), And(Eq(kc, IntLit(int64(kindCode("ChanRecvClosed")))), Not(okT))))
			default:
				conds = append(conds, Eq(kc, IntLit(int64(kindCode(a.Kind)))))
			}
			if obj != nil {
				conds = append(conds, Eq(a.Obj, *obj))
			}
			sum = Add(sum, Ite(And(conds...), IntLit(1), IntLit(0)))
		}
		return mkInt(sum)
	case "actval":
		// actval(K, obj): the value sent (K_ChanSend) / received (K_ChanRecv) by the LAST such action on obj
		kname := strings.TrimPrefix(x.Args[0].Name, "K_")
		o := arg(1)
		log := se.st.actionLog
		if se.cur != nil {
			log = se.cur.actionLog
		}
		var out *Val
		for _, a := range log {
			if a.Kind != kname {
				continue
			}
			var v Val
			if kname == "ChanSend" {
				v = a.Args[0]
			} else if len(a.Res) > 0 {
				v = a.Res[0]
			} else {
				continue
			}
			if want := resolve(chanElem(o.T), se.env); len(v.L) != len(e.lay.Leaves(want)) {
				continue // an action on a channel of another element type
			}
			if out == nil {
				c := v
				out = &c
				continue
			}
			n := Val{T: v.T, L: make([]Term, len(v.L))}
			for i := range v.L {
				n.L[i] = Ite(Eq(a.Obj, o.L[0]), v.L[i], out.L[i])
			}
			out = &n
		}
		if out == nil {
			// no such action on this path: an unconstrained value (clauses guard it with nacts(...) > 0)
			return e.freshVal("noact", resolve(chanElem(o.T), se.env))
		}
		return *out
	case "oncefirst":
		// oncefirst(o, F): the value the one invocation that ran under o's sync.Once stored into field F
		recv := arg(0)
		fname := x.Args[1].Name
		loc := e.locOf(recv)
		stt, ok := loc.T.Underlying().(*types.Struct)
		if !ok {
			panic(unsupported("oncefirst: not a struct"))
		}
		for i := 0; i < stt.NumFields(); i++ {
			if stt.Field(i).Name() == fname {
				ft := resolve(stt.Field(i).Type(), se.env)
				ls := e.lay.Leaves(ft)
				v := Val{T: ft, L: make([]Term, len(ls))}
				for j := range ls {
					v.L[j] = e.ctx.App(fmt.Sprintf("oncefirst_%s_%d", fname, j), ls[j].Sort, recv.L[0])
				}
				return v
			}
		}
		panic(unsupported("oncefirst: no field %s", fname))
	case "iface":
		// iface(v): the interface value holding v (as produced by converting v to `any`)
		return e.makeInterface(se.st, arg(0), types.NewInterfaceType(nil, nil))
	case "asptr":
		// asptr(r, T): the reference r (an integer, e.g. from a ghost variable) as a pointer to a T object
		return Val{T: types.NewPointer(e.specType(x.Args[1].Name, se)), L: []Term{arg(0).L[0]}}
	case "deref":
		// deref(p, T): the T object an (unsafe) pointer p points to
		pv := arg(0)
		t := e.specType(x.Args[1].Name, se)
		return e.loadLoc(se.st, e.locOf(Val{T: types.NewPointer(t), L: []Term{pv.L[0]}}))
	case "unbox":
		// unbox(i, T): the value of type T held by interface value i
		return e.unbox(arg(0).L[1], e.specType(x.Args[1].Name, se))
	case "hastype":
		return mkBool(Eq(arg(0).L[0], e.lay.TypeID(e.specType(x.Args[1].Name, se))))
	case "view":
		// view(p): the abstract value of the owned structure rooted at pointer p
		p := arg(0)
		od := e.isOwnedPtr(p.T)
		if od == nil {
			panic(unsupported("view of %s", p.T))
		}
		elem := p.T.Underlying().(*types.Pointer).Elem()
		if t, ok := e.viewOf(se.st, od, p.L[0], elem, 0); ok {
			return Val{T: e.adtType(od.ADT), L: []Term{t}}
		}
		// not (entirely) owned: an unconstrained value, so that clauses about it cannot be proved
		e.declareADT(od.ADT, se)
		return Val{T: e.adtType(od.ADT), L: []Term{e.ctx.Fresh("t_unowned", Sort(od.ADT))}}
	case "owned":
		p := arg(0)
		od := e.isOwnedPtr(p.T)
		if od == nil {
			return mkBool(False)
		}
		_, ok := e.viewOf(se.st, od, p.L[0], p.T.Underlying().(*types.Pointer).Elem(), 0)
		return mkBool(mkBoolTerm(ok))
	case "setmap":
		return e.setMapOf(se.st, arg(0))
	case "absmap":
		return e.absMapOf(arg(0))
	case "mem":
		// mem(s, x): x is a member of set s
		return mkBool(e.mapHas(se.st, e.setMapOf(se.st, arg(0)), arg(1)))
	case "card":
		return mkInt(e.mapCard(se.st, e.setMapOf(se.st, arg(0))))
	case "dyntype":
		// dyntype(v, maps.Set) etc. is not needed: implementations are distinguished by setmap
		panic(unsupported("dyntype"))
	case "mark":
		// mark(x): an always-true marker used purely as an instantiation trigger
		a := arg(0)
		f := e.ctx.Fun("mark", []Sort{SInt}, SBool)
		e.ctx.Axiom("mark_true", "(forall ((x Int)) (! (mark x) :pattern ((mark x))))")
		return mkBool(T(SBool, "(%s %s)", f, a.L[0].S))
	case "cellof":
		n := *se
		n.wantCell = true
		if v, ok := e.evalPureGo(x.Args[0], &n); ok {
			return v
		}
		panic(unsupported("cellof of %s", x.Args[0]))
	case "isnil":
		return mkBool(Eq(arg(0).L[0], IntLit(0)))
	}
	if v, ok := e.evalExtCall(x, se); ok {
		return v
	}
	if ad, c := e.findCtor(x.Name); ad != nil {
		e.declareADT(ad.Name, se)
		if len(c.Fields) != len(x.Args) {
			panic(unsupported("constructor %s expects %d arguments", c.Name, len(c.Fields)))
		}
		var as []string
		for i := range x.Args {
			a := arg(i)
			if len(a.L) == 1 && a.L[0].Sort == SInt && c.Fields[i].Type != "int" && c.Fields[i].Type != ad.Name {
				if ls := e.lay.Leaves(e.specType(c.Fields[i].Type, se)); len(ls) == 1 {
					if lit, ok := e.litTo(a.L[0], ls[0].Sort); ok {
						a = Val{L: []Term{lit}}
					}
				}
			}
			as = append(as, a.L[0].S)
		}
		return Val{T: e.adtType(ad.Name), L: []Term{T(Sort(ad.Name), "(%s %s)", c.Name, strings.Join(as, " "))}}
	}
	if i := strings.Index(x.Name, "_"); i > 0 && len(x.Args) == 1 {
		// selector <Ctor>_<field>(t)
		if ad, c := e.findCtor(x.Name[:i]); ad != nil {
			for _, f := range c.Fields {
				if f.Name == x.Name[i+1:] {
					e.declareADT(ad.Name, se)
					a := arg(0)
					if f.Type == ad.Name {
						return Val{T: e.adtType(ad.Name), L: []Term{T(Sort(ad.Name), "(%s %s)", x.Name, a.L[0].S)}}
					}
					ft := e.specType(f.Type, se)
					return Val{T: ft, L: []Term{T(e.lay.Leaves(ft)[0].Sort, "(%s %s)", x.Name, a.L[0].S)}}
				}
			}
		}
	}
	if strings.HasPrefix(x.Name, "is") {
		if ad, c := e.findCtor(strings.TrimPrefix(x.Name, "is")); ad != nil && len(x.Args) == 1 {
			return mkBool(T(SBool, "((_ is %s) %s)", c.Name, arg(0).L[0].S))
		}
	}
	// user spec function (macro or uninterpreted)
	if sf, ok := e.cs.SpecFuncs[x.Name]; ok {
		return e.applySpecFunc(sf, x, se)
	}
	// callback application: f(args) for a function-typed parameter
	if fv, ok := e.lookupName(x.Name, se); ok {
		if _, isSig := fv.T.Underlying().(*types.Signature); isSig {
			var args []Val
			for i := range x.Args {
				args = append(args, arg(i))
			}
			return e.applyCallbackPure(fv, x.Name, args, se)
		}
	}
	// axiom / lemma instantiation: name(args) yields the instantiated body
	if ax, ok := e.cs.Axioms[x.Name]; ok {
		inner := se
		for i, p := range ax.Params {
			inner = inner.with(p.Name, arg(i))
		}
		return mkBool(e.evalBool(ax.Body, inner))
	}
	// pure Go function of the package used as a spec function (body extracted from the code)
	if v, ok := e.evalPureGo(x, se); ok {
		return v
	}
	panic(unsupported("unknown spec function %s", x.Name))
}

// applyCallbackPure: the value a pure callback returns for these arguments.
func (e *Engine) applyCallbackPure(fv Val, name string, args []Val, se *SpecEnv) Val {
	sig := fv.T.Underlying().(*types.Signature)
	rt := resultType(sig, se.env)
	sym := name
	if fv.Fn != nil && fv.Fn.Sym != "" {
		sym = fv.Fn.Sym
	} else if fv.Fn != nil && fv.Fn.Fn != nil {
		// a concrete side-effect free function (e.g. typ.Less passed as a comparator): evaluate its body symbolically
		// and join the paths into one conditional value
		return e.evalConcreteFn(fv, name, args, se)
	}
	var flat []Term
	flat = append(flat, fv.L[0])
	for i, a := range args {
		// coerce literals
		pt := resolve(sig.Params().At(i).Type(), se.env)
		if len(a.L) == 1 && a.L[0].Sort == SInt {
			ls := e.lay.Leaves(pt)
			if len(ls) == 1 && ls[0].Sort != SInt {
				if c, ok := e.litTo(a.L[0], ls[0].Sort); ok {
					a = Val{T: pt, L: []Term{c}}
				}
			}
		}
		flat = append(flat, a.L...)
	}
	ls := e.lay.Leaves(rt)
	res := Val{T: rt, L: make([]Term, len(ls))}
	for i, lf := range ls {
		res.L[i] = e.ctx.App(fmt.Sprintf("cb_fn_%d_%s", len(flat), sanitize(lf.Path+"_"+string(lf.Sort))), lf.Sort, flat...)
		_ = sym
	}
	return res
}

// applySpecFunc: macros are expanded; uninterpreted spec functions are applied
// to the flattened arguments (slices are passed as row array + offset + length
// so that their meaning depends only on the cells they denote).
func (e *Engine) applySpecFunc(sf *SpecFunc, x *Expr, se *SpecEnv) Val {
	if len(x.Args) != len(sf.Params) {
		panic(unsupported("spec function %s expects %d arguments", sf.Name, len(sf.Params)))
	}
	var args []Val
	for i := range x.Args {
		args = append(args, e.evalSpec(x.Args[i], se))
	}
	if sf.Body != nil {
		inner := se
		for i, p := range sf.Params {
			inner = inner.with(p.Name, args[i])
		}
		return e.evalSpec(sf.Body, inner)
	}
	var flat []Term
	for _, a := range args {
		if len(a.L) == 4 && isSliceLike(a.T) {
			et := resolve(elemOfSlice(a.T), nil)
			for i := range e.lay.Leaves(et) {
				flat = append(flat, Select(e.getSliceHeap(se.st, et, i), a.L[0]))
			}
			flat = append(flat, a.L[1], a.L[2])
			continue
		}
		flat = append(flat, a.L...)
	}
	rt := e.specRetType(sf, args, se)
	ls := e.lay.Leaves(rt)
	res := Val{T: rt, L: make([]Term, len(ls))}
	var sorts []string
	for _, f := range flat {
		sorts = append(sorts, sanitize(string(f.Sort)))
	}
	for i, lf := range ls {
		res.L[i] = e.ctx.App(fmt.Sprintf("sf_%s_%d_%s", sf.Name, i, strings.Join(sorts, "_")), lf.Sort, flat...)
	}
	return res
}

func isSliceLike(t types.Type) bool {
	if _, ok := t.Underlying().(*types.Slice); ok {
		return true
	}
	if tp, ok := t.(*types.TypeParam); ok {
		if c := coreOf(tp); c != nil {
			_, ok := c.(*types.Slice)
			return ok
		}
	}
	return false
}

func (e *Engine) specRetType(sf *SpecFunc, args []Val, se *SpecEnv) types.Type {
	// "elem(p)" = element type of parameter p; "typeof(p)" = type of parameter p
	r := sf.Ret
	if strings.HasPrefix(r, "elem(") || strings.HasPrefix(r, "typeof(") {
		name := r[strings.Index(r, "(")+1 : len(r)-1]
		for i, p := range sf.Params {
			if p.Name == name {
				if strings.HasPrefix(r, "elem(") {
					return resolve(elemOfSlice(args[i].T), nil)
				}
				return args[i].T
			}
		}
	}
	return e.specType(r, se)
}

func (e *Engine) evalTypeInv(v Val, se *SpecEnv) Val {
	t := v.T
	if pt, ok := t.Underlying().(*types.Pointer); ok {
		t = pt.Elem()
	}
	nt, ok := t.(*types.Named)
	if !ok {
		panic(unsupported("inv() of unnamed type %s", t))
	}
	key := nt.Obj().Pkg().Name() + "." + nt.Obj().Name()
	ti, ok := e.cs.TypeInvs[key]
	if !ok {
		panic(unsupported("no type invariant declared for %s", key))
	}
	inner := se.with(ti.Recv, v)
	return mkBool(e.evalBool(ti.Body, inner))
}

func (e *Engine) ghostSort(gv *GhostVar, se *SpecEnv) Sort {
	t := e.specType(gv.Type, se)
	ls := e.lay.Leaves(t)
	if len(ls) != 1 {
		panic(unsupported("ghost variable %s of composite type", gv.Name))
	}
	s := ls[0].Sort
	for i := 0; i < gv.Dims; i++ {
		s = ArrSort(SInt, s)
	}
	return s
}

func (e *Engine) ghostArray(st *State, gv *GhostVar, se *SpecEnv) Val {
	if v, ok := st.ghost[gv.Name]; ok {
		return v
	}
	return Val{T: nil, L: []Term{e.ctx.Const("ghost_"+gv.Name+"_0", e.ghostSort(gv, se))}, G: gv}
}

func (e *Engine) findCtor(name string) (*ADTDecl, *ADTCtor) {
	for _, d := range e.cs.ADTs {
		for i := range d.Ctors {
			if d.Ctors[i].Name == name {
				return d, &d.Ctors[i]
			}
		}
	}
	return nil, nil
}

// assumeTheory asserts the package's `auto` axioms (definitional equations of spec functions over datatypes).
func (e *Engine) assumeTheory(st *State, pkg string, se *SpecEnv) {
	var names []string
	for n, ax := range e.cs.Axioms {
		if ax.Auto && ax.Pkg == pkg {
			names = append(names, n)
		}
	}
	sort.Strings(names)
	for _, n := range names {
		st.Assume(e.evalBool(e.cs.Axioms[n].Body, se))
	}
}

// logKey: call logs are keyed by the root function's callback parameter; a callee's parameter that was passed
// that callback denotes the same log.
func (e *Engine) logKey(name string, se *SpecEnv) string {
	if v, ok := e.lookupName(name, se); ok && v.Fn != nil && v.Fn.Sym != "" {
		return v.Fn.Sym
	}
	return name
}

// constInt evaluates a closed integer term built from literals, + and -.
func constInt(s string) (int, bool) {
	s = strings.TrimSpace(s)
	if n, err := strconv.Atoi(s); err == nil {
		return n, true
	}
	if !strings.HasPrefix(s, "(") || !strings.HasSuffix(s, ")") {
		return 0, false
	}
	inner := strings.TrimSpace(s[1 : len(s)-1])
	if len(inner) < 2 {
		return 0, false
	}
	op := inner[0]
	if op != '+' && op != '-' {
		return 0, false
	}
	// split the operands at top level
	var parts []string
	depth, start := 0, -1
	rest := inner[1:]
	for i, ch := range rest {
		switch {
		case ch == '(':
			if depth == 0 && start < 0 {
				start = i
			}
			depth++
		case ch == ')':
			depth--
			if depth == 0 {
				parts = append(parts, rest[start:i+1])
				start = -1
			}
		case ch == ' ':
			if depth == 0 && start >= 0 {
				parts = append(parts, rest[start:i])
				start = -1
			}
		default:
			if depth == 0 && start < 0 {
				start = i
			}
		}
	}
	if start >= 0 {
		parts = append(parts, rest[start:])
	}
	if len(parts) == 0 {
		return 0, false
	}
	acc, ok := constInt(parts[0])
	if !ok {
		return 0, false
	}
	if len(parts) == 1 {
		if op == '-' {
			return -acc, true
		}
		return acc, true
	}
	for _, p := range parts[1:] {
		v, ok := constInt(p)
		if !ok {
			return 0, false
		}
		if op == '+' {
			acc += v
		} else {
			acc -= v
		}
	}
	return acc, true
}

func isTypeParam(t types.Type) bool {
	_, ok := t.(*types.TypeParam)
	return ok
}

// assertedIfaceWith: the interface type (with a method of that name) that the root function type-asserts to.
func (e *Engine) assertedIfaceWith(method string) (types.Type, *types.Signature) {
	if e.root == nil {
		return nil, nil
	}
	for _, b := range bodyOf(e.root).Blocks {
		for _, in := range b.Instrs {
			ta, ok := in.(*ssa.TypeAssert)
			if !ok {
				continue
			}
			it, ok := ta.AssertedType.Underlying().(*types.Interface)
			if !ok {
				continue
			}
			for i := 0; i < it.NumMethods(); i++ {
				if it.Method(i).Name() == method {
					return resolve(ta.AssertedType, e.rootEnv), it.Method(i).Type().(*types.Signature)
				}
			}
		}
	}
	return nil, nil
}

// evalConcreteFn: the value a concrete, side-effect free function returns for symbolic arguments (all paths joined by
// their path conditions). Obligations inside the body are not generated (the state is marked dead): this is a
// specification-level evaluation.
func (e *Engine) evalConcreteFn(fv Val, name string, args []Val, se *SpecEnv) Val {
	fn := fv.Fn.Fn
	st := se.st.Clone()
	st.dead = true
	base := len(st.pc)
	type outcome struct {
		cond Term
		res  Val
	}
	var outs []outcome
	env := fv.Fn.Env
	if env == nil {
		env = e.calleeEnv(fn, se.env)
	}
	savedPaths := e.paths
	e.execFunction(st, fn, env, args, fv.Fn.Bindings, &Frame{depth: 2, fn: nil, env: se.env}, nil, func(s2 *State, results []Val) {
		if len(results) != 1 {
			panic(unsupported("spec application of %s: not a single-result function", name))
		}
		outs = append(outs, outcome{And(s2.pc[base:]...), results[0]})
	})
	e.paths = savedPaths
	if len(outs) == 0 {
		panic(unsupported("spec application of %s: no returning path", name))
	}
	res := outs[len(outs)-1].res
	for i := len(outs) - 2; i >= 0; i-- {
		n := Val{T: res.T, L: make([]Term, len(res.L))}
		for j := range res.L {
			n.L[j] = Ite(outs[i].cond, outs[i].res.L[j], res.L[j])
		}
		res = n
	}
	return res
}

func (se *SpecEnv) freshFrom() Term {
	if se.freshBase != nil {
		return *se.freshBase
	}
	if se.st != nil && se.st.base != nil {
		return se.st.base.next // `opt lockhavoc`: fresh = allocated by this call after the lock was taken
	}
	return se.e.next0
}
