package main

// Relational (product) mode: a forked function and its standard-library
// original are executed from one and the same symbolic heap; the obligation
// is that they agree on panicking, results, every heap field and the
// allocation counter. Loops are cut at the relational invariant "both states
// are identical": both runs havoc the loop state to the same fresh constants.

import (
	"fmt"
	"go/types"
	"sort"
	"strings"

	"golang.org/x/tools/go/ssa"
)

type relOutcome struct {
	kind    string // return | panic | loop-entry | loop-back
	loop    int
	pc      []Term
	results []Val
	st      *State
	phis    []Val
	path    string
	seg     string // loop heads havocked so far on this path: outcomes are compared within one segment
}

type relRun struct {
	alias    [][2]string
	side     string
	outcomes []*relOutcome
	anySort  Sort
}

func (e *Engine) relRecord(kind string, loop int, st *State, results []Val, phis []Val) {
	seg := ""
	for _, p := range st.path {
		if strings.HasPrefix(p, "L") && strings.HasSuffix(p, ".") {
			seg += p
		}
	}
	e.rel.outcomes = append(e.rel.outcomes, &relOutcome{kind: kind, loop: loop, pc: append([]Term(nil), st.pc...), results: results, st: st, phis: phis, path: st.pathName(), seg: seg})
}

// relHavocLoop: both sides get identical, deterministically named fresh state at a loop head.
func (e *Engine) relHavocLoop(st *State, fr *Frame, li *loopInfo) {
	n := 0
	for _, in := range li.header.Instrs {
		phi, ok := in.(*ssa.Phi)
		if !ok {
			break
		}
		t := resolve(phi.Type(), fr.env)
		ls := e.lay.Leaves(t)
		nv := Val{T: t, L: make([]Term, len(ls))}
		for i, lf := range ls {
			nv.L[i] = e.ctx.Const(fmt.Sprintf("rel_L%d_phi%d_%d", li.ord, n, i), lf.Sort)
		}
		nv.Fn = fr.regs[phi].Fn
		fr.regs[phi] = nv
		if phi.Comment != "" {
			fr.names[phi.Comment] = NameBinding{V: nv}
		}
		n++
	}
	for _, k := range sortedKeys(st.objHeap) {
		st.objHeap[k] = e.ctx.Const(fmt.Sprintf("rel_L%d_%s", li.ord, k), st.objHeap[k].Sort)
	}
	for _, k := range sortedKeys(st.sliceHeap) {
		st.sliceHeap[k] = e.ctx.Const(fmt.Sprintf("rel_L%d_%s", li.ord, k), st.sliceHeap[k].Sort)
	}
	st.next = e.ctx.Const(fmt.Sprintf("rel_L%d_next", li.ord), SInt)
	var lnames []string
	for name := range st.logs {
		lnames = append(lnames, name)
	}
	sort.Strings(lnames)
	for _, name := range lnames {
		l := st.logs[name]
		nl := &CallLog{Len: e.ctx.Const(fmt.Sprintf("rel_L%d_loglen_%s", li.ord, name), SInt), ArgT: l.ArgT}
		for ai, arrs := range l.Args {
			var na []Term
			for li2, a := range arrs {
				na = append(na, e.ctx.Const(fmt.Sprintf("rel_L%d_log_%s_%d_%d", li.ord, name, ai, li2), a.Sort))
			}
			nl.Args = append(nl.Args, na)
		}
		st.logs[name] = nl
	}
}

func (e *Engine) relPhis(fr *Frame, li *loopInfo) []Val {
	var out []Val
	for _, in := range li.header.Instrs {
		phi, ok := in.(*ssa.Phi)
		if !ok {
			break
		}
		out = append(out, fr.regs[phi])
	}
	return out
}

// relTouchAllHeaps makes sure every object heap of the root types exists in the state, so that loop
// havoc and comparison see the same key set on both sides.
func (e *Engine) relTouch(st *State, t types.Type, seen map[string]bool) {
	if pt, ok := t.Underlying().(*types.Pointer); ok {
		el := resolve(pt.Elem(), e.rootEnv)
		k := typeKey(el)
		if seen[k] {
			return
		}
		seen[k] = true
		if stt, ok := el.Underlying().(*types.Struct); ok {
			for i := range e.lay.Leaves(el) {
				key := e.objHeapKey(el, i)
				if _, ok := st.objHeap[key]; !ok {
					st.objHeap[key] = e.getObjHeap(st, el, i)
				}
			}
			for i := 0; i < stt.NumFields(); i++ {
				ft := resolve(stt.Field(i).Type(), e.rootEnv)
				if _, isStruct := ft.Underlying().(*types.Struct); isStruct {
					e.relTouch(st, types.NewPointer(ft), seen)
				} else {
					e.relTouch(st, ft, seen)
				}
			}
		}
	}
}

// runSide executes one function in relational mode and returns its outcomes.
func (v *Verifier) runSide(e *Engine, fn *ssa.Function, side string, params []Val) (outs []*relOutcome, err error) {
	defer func() {
		if r := recover(); r != nil {
			if u, ok := r.(Unsupported); ok {
				err = u
				return
			}
			panic(r)
		}
	}()
	e.rel.side = side
	e.rel.outcomes = nil
	e.root = fn
	e.rootC = &Contract{Key: fn.Name(), Loops: map[int]*LoopSpec{}}
	env := TEnv{}
	e.rootEnv = env
	st := NewState()
	st.next = e.next0
	st.Assume(Lt(IntLit(0), e.next0))
	var args []Val
	e.params = map[string]Val{}
	for i, p := range fn.Params {
		t := resolve(p.Type(), env)
		pv := Val{T: t, L: params[i].L, Fn: params[i].Fn}
		if _, ok := t.Underlying().(*types.Signature); ok {
			pv.Fn = &FuncVal{Sym: "f"}
			st.Assume(Not(Eq(pv.L[0], IntLit(0))))
		}
		st.Assume(e.wellFormed(pv, e.next0))
		args = append(args, pv)
		e.params[p.Name()] = pv
		e.relTouch(st, t, map[string]bool{})
	}
	e.entry = st.Clone()
	e.execFunction(st, fn, env, args, nil, nil, e.rootC, func(st *State, results []Val) {
		e.relRecord("return", -1, st, results, nil)
	})
	return e.rel.outcomes, nil
}

func contradictory(a, b []Term) bool {
	set := map[string]bool{}
	for _, t := range a {
		set[t.S] = true
	}
	for _, t := range b {
		if strings.HasPrefix(t.S, "(not ") {
			if set[t.S[5:len(t.S)-1]] {
				return true
			}
		} else if set["(not "+t.S+")"] {
			return true
		}
	}
	return false
}

func (e *Engine) statesEqual(a, b *State) Term {
	var cs []Term
	keys := map[string]bool{}
	for k := range a.objHeap {
		keys[k] = true
	}
	for k := range b.objHeap {
		keys[k] = true
	}
	var ks []string
	for k := range keys {
		ks = append(ks, k)
	}
	sort.Strings(ks)
	get := func(s *State, m map[string]Term, k string, sortOf Term) Term {
		if t, ok := m[k]; ok {
			return t
		}
		return e.ctx.Const(k+"_0", sortOf.Sort)
	}
	for _, k := range ks {
		var ref Term
		if t, ok := a.objHeap[k]; ok {
			ref = t
		} else {
			ref = b.objHeap[k]
		}
		x, y := get(a, a.objHeap, k, ref), get(b, b.objHeap, k, ref)
		if x.S != y.S {
			cs = append(cs, T(SBool, "(= %s %s)", x.S, y.S))
		}
	}
	keys = map[string]bool{}
	for k := range a.sliceHeap {
		keys[k] = true
	}
	for k := range b.sliceHeap {
		keys[k] = true
	}
	ks = nil
	for k := range keys {
		ks = append(ks, k)
	}
	sort.Strings(ks)
	for _, k := range ks {
		var ref Term
		if t, ok := a.sliceHeap[k]; ok {
			ref = t
		} else {
			ref = b.sliceHeap[k]
		}
		x, y := get(a, a.sliceHeap, k, ref), get(b, b.sliceHeap, k, ref)
		if x.S != y.S {
			cs = append(cs, T(SBool, "(= %s %s)", x.S, y.S))
		}
	}
	if a.next.S != b.next.S {
		cs = append(cs, Eq(a.next, b.next))
	}
	// callback call logs
	names := map[string]bool{}
	for n := range a.logs {
		names[n] = true
	}
	for n := range b.logs {
		names[n] = true
	}
	for n := range names {
		la, lb := a.logs[n], b.logs[n]
		if la == nil || lb == nil {
			if la != nil {
				cs = append(cs, Eq(la.Len, IntLit(0)))
			}
			if lb != nil {
				cs = append(cs, Eq(lb.Len, IntLit(0)))
			}
			continue
		}
		cs = append(cs, Eq(la.Len, lb.Len))
		for ai := range la.Args {
			for li := range la.Args[ai] {
				if ai < len(lb.Args) && li < len(lb.Args[ai]) && la.Args[ai][li].S != lb.Args[ai][li].S {
					cs = append(cs, T(SBool, "(forall ((q_i Int)) (=> (and (<= 0 q_i) (< q_i %s)) (= (select %s q_i) (select %s q_i))))", la.Len.S, la.Args[ai][li].S, lb.Args[ai][li].S))
				}
			}
		}
	}
	return And(cs...)
}

func valsEqual(a, b []Val) Term {
	if len(a) != len(b) {
		return False
	}
	var cs []Term
	for i := range a {
		if len(a[i].L) != len(b[i].L) {
			return False
		}
		for j := range a[i].L {
			cs = append(cs, Eq(a[i].L[j], b[i].L[j]))
		}
	}
	return And(cs...)
}

// VerifyPair generates the equivalence obligations of one (fork, original) pair.
func (v *Verifier) VerifyPair(forkKey, stdKey string, alias [][2]string) (run *FuncRun) {
	run = &FuncRun{Key: forkKey + "~" + stdKey}
	f := v.findFunc(forkKey)
	g := v.findFunc(stdKey)
	if f == nil || g == nil {
		run.Err = fmt.Errorf("pair %s / %s not found", forkKey, stdKey)
		return
	}
	ctx := NewCtx()
	e := &Engine{prog: v.prog, pkgs: v.pkgs, cs: NewContractSet(), ctx: ctx, lay: NewLayouter(ctx, false), maxPaths: 4000,
		inputs: map[string]Term{}, trustedUsed: map[string]bool{}, callees: map[string]bool{}, subFuns: map[string]bool{}, subCodes: map[string]int{}, adtTypes: map[string]types.Type{}}
	e.rel = &relRun{alias: alias}
	e.funcName = forkKey + "~" + stdKey
	e.next0 = ctx.Const("next0", SInt)
	// the original's `any` values and the fork's T values are one abstract sort
	e.lay.anyAs = ctx.DeclareSort("U_T")
	if len(f.Params) != len(g.Params) {
		run.Err = fmt.Errorf("pair %s: different arity", run.Key)
		return
	}
	// shared symbolic arguments
	var params []Val
	func() {
		defer func() {
			if r := recover(); r != nil {
				if u, ok := r.(Unsupported); ok {
					run.Err = u
					return
				}
				panic(r)
			}
		}()
		for _, p := range f.Params {
			t := resolve(p.Type(), nil)
			pv := e.freshVal(p.Name(), t)
			for i, lf := range e.lay.Leaves(t) {
				n := p.Name()
				if lf.Path != "" {
					n += "." + lf.Path
				}
				e.inputs[n] = pv.L[i]
			}
			params = append(params, pv)
		}
	}()
	if run.Err != nil {
		return
	}
	fo, err := v.runSide(e, f, "fork", params)
	if err != nil {
		run.Err = fmt.Errorf("fork side: %v", err)
		return
	}
	go_, err := v.runSide(e, g, "orig", params)
	if err != nil {
		run.Err = fmt.Errorf("original side: %v", err)
		return
	}
	pairs := 0
	for _, a := range fo {
		for _, b := range go_ {
			if a.seg != b.seg || contradictory(a.pc, b.pc) {
				continue
			}
			pairs++
			pc := append(append([]Term(nil), a.pc...), b.pc...)
			name := fmt.Sprintf("%s/equiv", e.funcName)
			mk := func(kind string, goal Term, note string) {
				o := &Obligation{Name: fmt.Sprintf("%s[%s]/%s~%s", name, kind, a.path, b.path), Kind: "equiv", Func: e.funcName, Assume: pc, Goal: goal, Ctx: ctx, Inputs: e.inputs, Note: note}
				e.obs = append(e.obs, o)
			}
			if a.kind != b.kind || a.loop != b.loop {
				mk("outcome", False, fmt.Sprintf("fork %s (loop %d) while the original %s (loop %d) on the same input", a.kind, a.loop, b.kind, b.loop))
				continue
			}
			switch a.kind {
			case "panic":
				// both panic: observationally equal
				mk("panic", True, "both panic")
			case "return":
				mk("result", valsEqual(a.results, b.results), "results agree")
				mk("heap", e.statesEqual(a.st, b.st), "every heap field, the allocation counter and the callback logs agree")
			case "loop-entry", "loop-back":
				mk(a.kind+"-vars", valsEqual(a.phis, b.phis), "loop-carried variables agree at the loop head")
				mk(a.kind+"-heap", e.statesEqual(a.st, b.st), "heaps agree at the loop head")
			}
		}
	}
	if pairs == 0 {
		run.Err = fmt.Errorf("no compatible outcome pairs")
		return
	}
	// vacuity: some pair of return outcomes is feasible
	for _, a := range fo {
		if a.kind == "return" {
			e.obs = append(e.obs, &Obligation{Name: e.funcName + "/cover[return]", Kind: "cover", Func: e.funcName, Assume: a.pc, Goal: True, Ctx: ctx, Cover: true})
			break
		}
	}
	run.Obs = e.obs
	run.Paths = len(fo) + len(go_)
	return
}
