package main

import (
	"golang.org/x/tools/go/ssa"
	"go/types"
)

func (e *Engine) makeMap(st *State, t types.Type) Val                 { panic(unsupported("make map")) }
func (e *Engine) mapCard(st *State, m Val) Term                      { panic(unsupported("len(map)")) }
func (e *Engine) mapDelete(st *State, m, k Val)                      { panic(unsupported("delete")) }
func (e *Engine) mapValueAt(st *State, m, k Val) Val                 { panic(unsupported("map index")) }
func (e *Engine) execLookup(st *State, fr *Frame, x *ssa.Lookup, pos string) { panic(unsupported("map lookup")) }
func (e *Engine) execMapUpdate(st *State, fr *Frame, x *ssa.MapUpdate, pos string) {
	panic(unsupported("map update"))
}
func (e *Engine) execRange(st *State, fr *Frame, x *ssa.Range) { panic(unsupported("range")) }
func (e *Engine) execNext(st *State, fr *Frame, x *ssa.Next, k callCont) { panic(unsupported("next")) }
func (e *Engine) havocMaps(st *State)                                   {}
func (e *Engine) havocMap(st *State, m Val)                             {}
func (e *Engine) mapFrame(st *State, assigned []Val) []Term             { return nil }
func (e *Engine) mapsUnchanged(st, old *State) []Term                   { return nil }
