package main

// Go maps: a map value is a reference (0 = nil map) into three heaps per map
// type: domain (key -> bool), values (key -> leaf) and cardinality.

import (
	"fmt"
	"go/types"
	"sort"
	"strings"

	"golang.org/x/tools/go/ssa"
)

type mapInfo struct {
	key   types.Type
	val   types.Type
	ksort Sort
	tag   string
}

func mapTypeOf(t types.Type) *types.Map {
	if m, ok := t.Underlying().(*types.Map); ok {
		return m
	}
	if tp, ok := t.(*types.TypeParam); ok {
		if c := coreOf(tp); c != nil {
			if m, ok := c.(*types.Map); ok {
				return m
			}
		}
	}
	return nil
}

func (e *Engine) mapInfo(t types.Type) mapInfo {
	m := mapTypeOf(t)
	if m == nil {
		panic(unsupported("not a map type: %s", t))
	}
	k := resolve(m.Key(), nil)
	v := resolve(m.Elem(), nil)
	kl := e.lay.Leaves(k)
	if len(kl) != 1 {
		panic(unsupported("map key type %s with %d leaves", k, len(kl)))
	}
	return mapInfo{key: k, val: v, ksort: kl[0].Sort, tag: typeKey(k) + "__" + typeKey(v)}
}

func (e *Engine) mapDomKey(mi mapInfo) string  { return "MD_" + mi.tag }
func (e *Engine) mapCardKey(mi mapInfo) string { return "MC_" + mi.tag }
func (e *Engine) mapValKey(mi mapInfo, leaf int) string {
	return fmt.Sprintf("MV_%s_%d", mi.tag, leaf)
}

func (e *Engine) getMapHeap(st *State, key string, sort Sort) Term {
	if t, ok := st.mapHeap[key]; ok {
		return t
	}
	return e.ctx.Const(key+"_0", sort)
}

func (e *Engine) mapDom(st *State, mi mapInfo) Term {
	return e.getMapHeap(st, e.mapDomKey(mi), ArrSort(SInt, ArrSort(mi.ksort, SBool)))
}
func (e *Engine) mapCardHeap(st *State, mi mapInfo) Term {
	return e.getMapHeap(st, e.mapCardKey(mi), ArrSort(SInt, SInt))
}
func (e *Engine) mapVal(st *State, mi mapInfo, leaf int) Term {
	ls := e.lay.Leaves(mi.val)
	return e.getMapHeap(st, e.mapValKey(mi, leaf), ArrSort(SInt, ArrSort(mi.ksort, ls[leaf].Sort)))
}

// mapWF: the facts tying cardinality to the domain, for the current heaps of one map type.
func (e *Engine) mapWF(st *State, mi mapInfo) Term {
	dom := e.mapDom(st, mi)
	card := e.mapCardHeap(st, mi)
	wit := e.ctx.Fun("mapwit_"+sanitize(string(mi.ksort)), []Sort{ArrSort(mi.ksort, SBool)}, mi.ksort)
	nonneg := T(SBool, "(forall ((q_r Int)) (! (<= 0 (select %s q_r)) :pattern ((select %s q_r))))", card.S, card.S)
	pos := T(SBool, "(forall ((q_r Int) (q_k %s)) (! (=> (select (select %s q_r) q_k) (< 0 (select %s q_r))) :pattern ((select (select %s q_r) q_k))))", mi.ksort, dom.S, card.S, dom.S)
	witness := T(SBool, "(forall ((q_r Int)) (! (=> (< 0 (select %s q_r)) (select (select %s q_r) (%s (select %s q_r)))) :pattern ((select %s q_r))))", card.S, dom.S, wit, dom.S, card.S)
	nilmap := T(SBool, "(and (= (select %s 0) 0) (forall ((q_k %s)) (! (not (select (select %s 0) q_k)) :pattern ((select (select %s 0) q_k)))))", card.S, mi.ksort, dom.S, dom.S)
	// the cardinality is a function of the domain (sets with the same members have the same size)
	cf := e.ctx.Fun("cardof_"+sanitize(string(mi.ksort)), []Sort{ArrSort(mi.ksort, SBool)}, SInt)
	fun := T(SBool, "(forall ((q_r Int)) (! (= (select %s q_r) (%s (select %s q_r))) :pattern ((select %s q_r))))", card.S, cf, dom.S, card.S)
	return And(nonneg, pos, witness, nilmap, fun)
}

func (e *Engine) touchMap(st *State, mi mapInfo) {
	k := e.mapDomKey(mi)
	if _, ok := st.mapHeap[k]; !ok {
		st.mapHeap[k] = e.mapDom(st, mi)
		st.mapHeap[e.mapCardKey(mi)] = e.mapCardHeap(st, mi)
		for i := range e.lay.Leaves(mi.val) {
			st.mapHeap[e.mapValKey(mi, i)] = e.mapVal(st, mi, i)
		}
		if st.mapTypes == nil {
			st.mapTypes = map[string]mapInfo{}
		}
		st.mapTypes[mi.tag] = mi
		st.Assume(e.mapWF(st, mi))
	}
}

func (e *Engine) makeMap(st *State, t types.Type) Val {
	mi := e.mapInfo(t)
	e.touchMap(st, mi)
	ref := st.next
	st.next = e.nameTerm(st, "next", Add(st.next, IntLit(1)))
	dom := e.mapDom(st, mi)
	card := e.mapCardHeap(st, mi)
	empty := T(ArrSort(mi.ksort, SBool), "((as const %s) false)", ArrSort(mi.ksort, SBool))
	st.mapHeap[e.mapDomKey(mi)] = e.nameTerm(st, e.mapDomKey(mi), Store(dom, ref, empty))
	st.mapHeap[e.mapCardKey(mi)] = e.nameTerm(st, e.mapCardKey(mi), Store(card, ref, IntLit(0)))
	return Val{T: t, L: []Term{ref}}
}

func (e *Engine) mapCard(st *State, m Val) Term {
	mi := e.mapInfo(m.T)
	e.touchMap(st, mi)
	return Select(e.mapCardHeap(st, mi), m.L[0])
}

func (e *Engine) mapHas(st *State, m Val, k Val) Term {
	mi := e.mapInfo(m.T)
	e.touchMap(st, mi)
	return Select(Select(e.mapDom(st, mi), m.L[0]), k.L[0])
}

func (e *Engine) mapValueAt(st *State, m, k Val) Val {
	mi := e.mapInfo(m.T)
	e.touchMap(st, mi)
	ls := e.lay.Leaves(mi.val)
	out := Val{T: mi.val, L: make([]Term, len(ls))}
	has := e.mapHas(st, m, k)
	for i, lf := range ls {
		out.L[i] = Ite(has, Select(Select(e.mapVal(st, mi, i), m.L[0]), k.L[0]), e.zeroLeaf(lf))
	}
	return out
}

func (e *Engine) execLookup(st *State, fr *Frame, x *ssa.Lookup, pos string) {
	m := e.operand(st, fr, x.X)
	k := e.operand(st, fr, x.Index)
	if mapTypeOf(m.T) == nil {
		panic(unsupported("lookup in %s", m.T))
	}
	v := e.mapValueAt(st, m, k)
	rt := resolve(x.Type(), fr.env)
	if x.CommaOk {
		res := Val{T: rt, L: append(append([]Term{}, v.L...), e.mapHas(st, m, k))}
		fr.regs[x] = res
		return
	}
	v.T = rt
	fr.regs[x] = v
}

// noteMapWrite marks every active iterator over the written map as modified.
func (e *Engine) noteMapWrite(st *State, mi mapInfo, ref Term) {
	for it, tag := range st.iterSnap {
		if tag == mi.tag {
			st.iterMod[it] = Or(st.iterMod[it], Eq(ref, st.iterRef[it])) // one update per iterator: order irrelevant
		}
	}
}

func (e *Engine) mapStore(st *State, m, k, v Val) {
	mi := e.mapInfo(m.T)
	e.touchMap(st, mi)
	ref := m.L[0]
	e.noteMapWrite(st, mi, ref)
	dom := e.mapDom(st, mi)
	card := e.mapCardHeap(st, mi)
	had := Select(Select(dom, ref), k.L[0])
	st.mapHeap[e.mapCardKey(mi)] = e.nameTerm(st, e.mapCardKey(mi), Store(card, ref, Add(Select(card, ref), Ite(had, IntLit(0), IntLit(1)))))
	st.mapHeap[e.mapDomKey(mi)] = e.nameTerm(st, e.mapDomKey(mi), Store(dom, ref, Store(Select(dom, ref), k.L[0], True)))
	for i := range e.lay.Leaves(mi.val) {
		h := e.mapVal(st, mi, i)
		st.mapHeap[e.mapValKey(mi, i)] = e.nameTerm(st, e.mapValKey(mi, i), Store(h, ref, Store(Select(h, ref), k.L[0], v.L[i])))
	}
}

func (e *Engine) execMapUpdate(st *State, fr *Frame, x *ssa.MapUpdate, pos string) {
	m := e.operand(st, fr, x.Map)
	k := e.operand(st, fr, x.Key)
	v := e.operand(st, fr, x.Value)
	e.obligationPanic(st, "nil-map-write", pos, Not(Eq(m.L[0], IntLit(0))))
	e.mapStore(st, m, k, v)
}

func (e *Engine) mapDelete(st *State, m, k Val) {
	mi := e.mapInfo(m.T)
	e.touchMap(st, mi)
	ref := m.L[0]
	e.noteMapWrite(st, mi, ref)
	dom := e.mapDom(st, mi)
	card := e.mapCardHeap(st, mi)
	had := Select(Select(dom, ref), k.L[0])
	// delete on a nil map is a no-op; the nil map's row is empty, so the same update is exact
	st.mapHeap[e.mapCardKey(mi)] = e.nameTerm(st, e.mapCardKey(mi), Store(card, ref, Sub(Select(card, ref), Ite(had, IntLit(1), IntLit(0)))))
	st.mapHeap[e.mapDomKey(mi)] = e.nameTerm(st, e.mapDomKey(mi), Store(dom, ref, Store(Select(dom, ref), k.L[0], False)))
}

// range over a map: the iterator is a ghost "visited" set plus a counter
func (e *Engine) execRange(st *State, fr *Frame, x *ssa.Range) {
	m := e.operand(st, fr, x.X)
	if mapTypeOf(m.T) == nil {
		panic(unsupported("range over %s", m.T))
	}
	mi := e.mapInfo(m.T)
	e.touchMap(st, mi)
	st.iter[x] = T(ArrSort(mi.ksort, SBool), "((as const %s) false)", ArrSort(mi.ksort, SBool))
	if st.iterCount == nil {
		st.iterCount = map[ssa.Value]Term{}
		st.iterSnap = map[ssa.Value]string{}
	}
	st.iterCount[x] = IntLit(0)
	st.iterSnap[x] = mi.tag
	if st.iterMod == nil {
		st.iterMod = map[ssa.Value]Term{}
		st.iterRef = map[ssa.Value]Term{}
	}
	st.iterMod[x] = False
	st.iterRef[x] = m.L[0]
	fr.regs[x] = m
	fr.iterOf = x
}

func (e *Engine) execNext(st *State, fr *Frame, x *ssa.Next, k callCont) {
	if x.IsString {
		panic(unsupported("range over string"))
	}
	r := x.Iter.(*ssa.Range)
	m := fr.regs[r]
	mi := e.mapInfo(m.T)
	visited := st.iter[r]
	dom := Select(e.mapDom(st, mi), m.L[0])
	rt := resolve(x.Type(), fr.env)
	zk := e.zeroVal(mi.key)
	zv := e.zeroVal(mi.val)
	// exhausted
	st2 := st.Clone()
	fr2 := fr.cloneForPath()
	{
		st2.Assume(T(SBool, "(forall ((q_k %s)) (! (=> (select %s q_k) (select %s q_k)) :pattern ((select %s q_k))))", mi.ksort, dom.S, visited.S, dom.S))
		// if the map was not modified during the iteration, every entry was visited exactly once
		st2.Assume(Implies(Not(st2.iterMod[r]), Eq(st2.iterCount[r], Select(e.mapCardHeap(st2, mi), m.L[0]))))
		st2.path = append(st2.path, "x")
		res := Val{T: rt, L: append(append([]Term{False}, zk.L...), zv.L...)}
		k(st2, fr2, res)
	}
	// one more entry
	{
		key := e.freshVal("rk", mi.key)
		st.Assume(e.wellFormed(key, st.next))
		st.Assume(Select(dom, key.L[0]))
		st.Assume(Not(Select(visited, key.L[0])))
		st.iter[r] = e.nameTerm(st, "visited", Store(visited, key.L[0], True))
		st.iterCount[r] = Add(st.iterCount[r], IntLit(1))
		val := e.mapValueAt(st, m, key)
		for i := range val.L {
			val.L[i] = Select(Select(e.mapVal(st, mi, i), m.L[0]), key.L[0])
		}
		st.Assume(e.wellFormed(val, st.next))
		st.path = append(st.path, "n")
		res := Val{T: rt, L: append(append([]Term{True}, key.L...), val.L...)}
		k(st, fr, res)
	}
}

func (e *Engine) havocMaps(st *State) {
	var tags []string
	for t := range st.mapTypes {
		tags = append(tags, t)
	}
	sort.Strings(tags)
	for _, t := range tags {
		mi := st.mapTypes[t]
		st.mapHeap[e.mapDomKey(mi)] = e.ctx.Fresh(e.mapDomKey(mi)+"_hv", ArrSort(SInt, ArrSort(mi.ksort, SBool)))
		st.mapHeap[e.mapCardKey(mi)] = e.ctx.Fresh(e.mapCardKey(mi)+"_hv", ArrSort(SInt, SInt))
		for i, lf := range e.lay.Leaves(mi.val) {
			st.mapHeap[e.mapValKey(mi, i)] = e.ctx.Fresh(e.mapValKey(mi, i)+"_hv", ArrSort(SInt, ArrSort(mi.ksort, lf.Sort)))
		}
		st.Assume(e.mapWF(st, mi))
	}
}

func (e *Engine) havocMap(st *State, m Val) {
	mi := e.mapInfo(m.T)
	e.touchMap(st, mi)
	ref := m.L[0]
	e.noteMapWrite(st, mi, ref)
	st.mapHeap[e.mapDomKey(mi)] = e.nameTerm(st, e.mapDomKey(mi), Store(e.mapDom(st, mi), ref, e.ctx.Fresh("domrow_hv", ArrSort(mi.ksort, SBool))))
	st.mapHeap[e.mapCardKey(mi)] = e.nameTerm(st, e.mapCardKey(mi), Store(e.mapCardHeap(st, mi), ref, e.ctx.Fresh("card_hv", SInt)))
	for i, lf := range e.lay.Leaves(mi.val) {
		h := e.mapVal(st, mi, i)
		st.mapHeap[e.mapValKey(mi, i)] = e.nameTerm(st, e.mapValKey(mi, i), Store(h, ref, e.ctx.Fresh("valrow_hv", ArrSort(mi.ksort, lf.Sort))))
	}
	st.Assume(e.mapWF(st, mi))
}

// assumeMapWF re-states the cardinality facts for the current heaps (they are invariants of the model).
func (e *Engine) assumeMapWF(st *State) {
	var tags []string
	for t := range st.mapTypes {
		tags = append(tags, t)
	}
	sort.Strings(tags)
	for _, t := range tags {
		st.Assume(e.mapWF(st, st.mapTypes[t]))
	}
}

// mapFrame: maps allocated before the call and not assignable are unchanged.
func (e *Engine) mapFrame(st *State, assigned []Val) []Term {
	var cs []Term
	for _, k := range sortedKeys(st.mapHeap) {
		cur := st.mapHeap[k]
		init := e.ctx.Const(k+"_0", cur.Sort)
		if cur.S == init.S {
			continue
		}
		var notRef []string
		for _, a := range assigned {
			mi := e.mapInfo(a.T)
			if strings.HasSuffix(k, "_"+mi.tag) || strings.Contains(k, "_"+mi.tag+"_") {
				notRef = append(notRef, "(not (= q_r "+a.L[0].S+"))")
			}
		}
		qr := e.allocID(Term{"q_r", SInt})
		guard := "(and (< 0 " + qr.S + ") (< " + qr.S + " " + e.next0.S + ")"
		if len(notRef) > 0 {
			guard += " " + strings.Join(notRef, " ")
		}
		guard += ")"
		cs = append(cs, T(SBool, "(forall ((q_r Int)) (! (=> %s (= (select %s q_r) (select %s q_r))) :pattern ((select %s q_r))))", guard, cur.S, init.S, cur.S))
	}
	return cs
}

func (e *Engine) mapsUnchanged(st, old *State) []Term {
	var cs []Term
	for _, k := range sortedKeys(st.mapHeap) {
		cur := st.mapHeap[k]
		var prev Term
		if p, ok := old.mapHeap[k]; ok {
			prev = p
		} else {
			prev = e.ctx.Const(k+"_0", cur.Sort)
		}
		if cur.S == prev.S {
			continue
		}
		cs = append(cs, T(SBool, "(forall ((q_r Int)) (! (=> (and (< 0 q_r) (< q_r %s)) (= (select %s q_r) (select %s q_r))) :pattern ((select %s q_r))))", old.next.S, cur.S, prev.S, cur.S))
	}
	return cs
}
