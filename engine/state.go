package main

// Symbolic values and the symbolic machine state.

import (
	"fmt"
	"go/types"
	"sort"
	"strings"

	"golang.org/x/tools/go/ssa"
)

// Val is a symbolic Go value: a resolved type plus its flat leaves.
type Val struct {
	T  types.Type
	L  []Term
	Fn *FuncVal // meta information for function values
	P  *Loc     // meta information for pointers that are not plain root references
	G  *GhostVar // ghost array value (T == nil): declared ghost variable being indexed
}

type FuncVal struct {
	Fn       *ssa.Function
	Bindings []Val
	Env      TEnv
	Sym      string // uninterpreted callback name
	SymSig   *types.Signature
	Bound    *Val // bound method receiver
}

type LocKind int

const (
	LocCell LocKind = iota // a local cell (non-escaping alloc, or an in/out pointer parameter)
	LocObj                 // leaves [Off,Off+N) of the heap object Ref of root type Root
	LocElem                // leaves [Off,Off+N) of element Idx of backing array Base, element type ElemT
	LocOwned               // leaves [Off,Off+N) of the owned node Ref (chunk store)
	LocArr                 // a whole array object stored as row Base of the element heap (N = array length)
)

type Loc struct {
	Kind  LocKind
	Cell  int
	Ref   Term
	Root  types.Type
	Base  Term
	Idx   Term
	ElemT types.Type
	Off   int
	N     int
	T     types.Type // type of the value stored at this location
}

type NameBinding struct {
	V      Val
	IsAddr bool
}

// CallLog is the ghost sequence of invocations of one callback: a length and,
// per argument leaf, an array from call index to the value passed.
type CallLog struct {
	Succ Term // how many of the logged calls returned true (calls with a boolean first result); "" when not tracked
	Len  Term
	Args [][]Term // [arg][leaf] -> (Array Int sort)
	ArgT []types.Type
}

type State struct {
	// base: `opt lockhavoc`: the state right after the last acquisition of the declared mutex (other goroutines have
	// acted by then); `old(...)` in ensures and invariants refers to it instead of the entry state
	base *State
	pc        []Term
	cells     map[int]Val
	sliceHeap map[string]Term
	objHeap   map[string]Term
	mapHeap   map[string]Term
	chanHeap  map[string]Term // copy-on-write
	objHavoc  []string        // heap-key prefixes havocked by `assigns objects(T)` callees (append-only)
	next      Term
	logs      map[string]*CallLog
	ghost     map[string]Val
	held      map[string]bool
	actions   int
	iter      map[ssa.Value]Term // map iterators: visited set
	iterCount map[ssa.Value]Term
	iterSnap  map[ssa.Value]string
	iterMod   map[ssa.Value]Term
	iterRef   map[ssa.Value]Term
	mapTypes  map[string]mapInfo
	chunks    map[string]*Chunk
	actionLog []*Action
	specIters []*specIter
	lastIter  *specIter
	path      []string
	dead      bool
}

func NewState() *State {
	return &State{cells: map[int]Val{}, sliceHeap: map[string]Term{}, objHeap: map[string]Term{}, mapHeap: map[string]Term{},
		logs: map[string]*CallLog{}, ghost: map[string]Val{}, held: map[string]bool{}, iter: map[ssa.Value]Term{}}
}

func (s *State) Clone() *State {
	n := &State{base: s.base, next: s.next, actions: s.actions, dead: s.dead, specIters: s.specIters[:len(s.specIters):len(s.specIters)], lastIter: s.lastIter, actionLog: s.actionLog[:len(s.actionLog):len(s.actionLog)], chunks: s.chunks, chanHeap: s.chanHeap, objHavoc: s.objHavoc[:len(s.objHavoc):len(s.objHavoc)]}
	n.pc = append([]Term(nil), s.pc...)
	n.path = append([]string(nil), s.path...)
	n.cells = make(map[int]Val, len(s.cells))
	for k, v := range s.cells {
		n.cells[k] = v
	}
	n.sliceHeap = make(map[string]Term, len(s.sliceHeap))
	for k, v := range s.sliceHeap {
		n.sliceHeap[k] = v
	}
	n.objHeap = make(map[string]Term, len(s.objHeap))
	for k, v := range s.objHeap {
		n.objHeap[k] = v
	}
	n.mapHeap = make(map[string]Term, len(s.mapHeap))
	for k, v := range s.mapHeap {
		n.mapHeap[k] = v
	}
	n.logs = make(map[string]*CallLog, len(s.logs))
	for k, v := range s.logs {
		n.logs[k] = v
	}
	n.ghost = make(map[string]Val, len(s.ghost))
	for k, v := range s.ghost {
		n.ghost[k] = v
	}
	n.held = make(map[string]bool, len(s.held))
	for k, v := range s.held {
		n.held[k] = v
	}
	n.iter = make(map[ssa.Value]Term, len(s.iter))
	for k, v := range s.iter {
		n.iter[k] = v
	}
	if s.iterCount != nil {
		n.iterCount = map[ssa.Value]Term{}
		n.iterSnap = map[ssa.Value]string{}
		for k, v := range s.iterCount {
			n.iterCount[k] = v
		}
		for k, v := range s.iterSnap {
			n.iterSnap[k] = v
		}
		n.iterMod = map[ssa.Value]Term{}
		n.iterRef = map[ssa.Value]Term{}
		for k, v := range s.iterMod {
			n.iterMod[k] = v
		}
		for k, v := range s.iterRef {
			n.iterRef[k] = v
		}
	}
	if s.mapTypes != nil {
		n.mapTypes = map[string]mapInfo{}
		for k, v := range s.mapTypes {
			n.mapTypes[k] = v
		}
	}
	return n
}

func (s *State) Assume(t Term) {
	if t.S == "true" {
		return
	}
	s.pc = append(s.pc, t)
}

func (s *State) pathName() string {
	if len(s.path) == 0 {
		return "p"
	}
	return strings.Join(s.path, "")
}

// Frame is one activation (the root function or an inlined callee).
type Frame struct {
	fn     *ssa.Function
	env    TEnv
	regs   map[ssa.Value]Val
	names  map[string]NameBinding
	parent *Frame
	depth  int
	// closure free variables
	free []Val
	// loop bookkeeping for the current path
	inLoop map[*ssa.BasicBlock]bool
	// values of the loop variants (`loop N decreases e`) at the loop head, for the iteration being executed
	variants map[*ssa.BasicBlock][]Term
	// deferred calls
	defers []deferred
	// result handling
	onReturn func(st *State, fr *Frame, results []Val)
	contract *Contract
	allocCell map[*ssa.Alloc]bool
	iterOf   ssa.Value
	cur      *ssa.BasicBlock // block being executed
}

type deferred struct {
	call *ssa.CallCommon
	args []Val
	fnv  Val
}

func (f *Frame) cloneForPath() *Frame {
	n := *f
	n.regs = make(map[ssa.Value]Val, len(f.regs))
	for k, v := range f.regs {
		n.regs[k] = v
	}
	n.names = make(map[string]NameBinding, len(f.names))
	for k, v := range f.names {
		n.names[k] = v
	}
	n.inLoop = make(map[*ssa.BasicBlock]bool, len(f.inLoop))
	for k, v := range f.inLoop {
		n.inLoop[k] = v
	}
	if f.variants != nil {
		n.variants = make(map[*ssa.BasicBlock][]Term, len(f.variants))
		for k, v := range f.variants {
			n.variants[k] = v
		}
	}
	n.defers = append([]deferred(nil), f.defers...)
	return &n
}

func sortedKeys(m map[string]Term) []string {
	var ks []string
	for k := range m {
		ks = append(ks, k)
	}
	sort.Strings(ks)
	return ks
}

func (v Val) String() string {
	var ss []string
	for _, l := range v.L {
		ss = append(ss, l.S)
	}
	return fmt.Sprintf("<%s: %s>", shortType(v.T), strings.Join(ss, ", "))
}
