package main

import (
	"go/token"
	"regexp"
	"encoding/json"
	"flag"
	"fmt"
	"os"
	"path/filepath"
	"sort"
	"strconv"
	"strings"
	"time"

	"golang.org/x/tools/go/packages"
	"golang.org/x/tools/go/ssa"
	"golang.org/x/tools/go/ssa/ssautil"
)

func loadProgram(repo string, extra []string) (*ssa.Program, map[string]*ssa.Package, error) {
	cfg := &packages.Config{
		Mode:       packages.LoadAllSyntax,
		Dir:        repo,
		BuildFlags: []string{"-tags=verif"},
		Env:        append(os.Environ(), "GOFLAGS=-mod=mod", "GOPROXY=off", "GOSUMDB=off", "GOTOOLCHAIN=local", "GOWORK=off"),
	}
	pats := append([]string{"./..."}, extra...)
	pkgs, err := packages.Load(cfg, pats...)
	if err != nil {
		return nil, nil, err
	}
	var errs []string
	packages.Visit(pkgs, nil, func(p *packages.Package) {
		for _, e := range p.Errors {
			errs = append(errs, e.Error())
		}
	})
	if len(errs) > 0 {
		return nil, nil, fmt.Errorf("package errors: %s", strings.Join(errs, "; "))
	}
	prog, spkgs := ssautil.AllPackages(pkgs, ssa.GlobalDebug)
	prog.Build()
	m := map[string]*ssa.Package{}
	for i, sp := range spkgs {
		if sp == nil {
			continue
		}
		name := sp.Pkg.Name()
		if strings.HasPrefix(pkgs[i].PkgPath, "container/") {
			name = "std" + name
		}
		m[name] = sp
	}
	return prog, m, nil
}

type obReport struct {
	Name   string  `json:"name"`
	Kind   string  `json:"kind"`
	Status string  `json:"status"`
	Solver string  `json:"solver"`
	Secs   float64 `json:"secs"`
	Note   string  `json:"note,omitempty"`
}

func main() {
	if len(os.Args) < 2 {
		fmt.Fprintln(os.Stderr, "usage: govc check <property|all> [flags] | govc funcs")
		os.Exit(2)
	}
	cmd := os.Args[1]
	fs := flag.NewFlagSet(cmd, flag.ExitOnError)
	repo := fs.String("repo", "/repo", "repository root")
	tier := fs.String("tier", "quick", "quick|thorough")
	only := fs.String("func", "", "only this function key (pkg.Func or pkg.Type.Method)")
	dump := fs.String("dump", "", "dump SMT scripts into this directory")
	verifDir := fs.String("verif", "/verif", "verification directory (evidence, known findings, replays)")
	workers := fs.Int("j", 14, "parallel solver processes")
	timeout := fs.Int("timeout", 0, "per-obligation timeout in ms")
	verbose := fs.Bool("v", false, "verbose")
	noEvidence := fs.Bool("no-evidence", false, "do not write evidence")
	var prop string
	args := os.Args[2:]
	if len(args) > 0 && !strings.HasPrefix(args[0], "-") {
		prop = args[0]
		args = args[1:]
	}
	fs.Parse(args)
	optDumpDir = *dump
	if s := os.Getenv("VERIF_SEED"); s != "" {
		if n, err := strconv.Atoi(s); err == nil {
			optSeed = n
		}
	}
	if t := os.Getenv("VERIF_TIER"); t != "" && *tier == "quick" {
		if t == "thorough" || t == "quick" {
			*tier = t
		}
	}
	if *tier == "thorough" {
		optTimeoutMs = 60000
		optTwoBackends = true
	}
	if *timeout > 0 {
		optTimeoutMs = *timeout
	}
	optRepo = *repo
	switch cmd {
	case "ssa":
		cs, _ := LoadContracts(*repo)
		prog, pkgs, err := loadProgram(*repo, nil)
		if err != nil {
			fmt.Println(err)
			os.Exit(2)
		}
		v := &Verifier{prog: prog, pkgs: pkgs, cs: cs}
		if fn := v.findFunc(prop); fn != nil {
			fn.WriteTo(os.Stdout)
			for _, af := range fn.AnonFuncs {
				af.WriteTo(os.Stdout)
			}
		}
		os.Exit(0)
	case "loops":
		// survey: every loop of every function under contract, with its kind (range loops terminate by construction)
		cs, _ := LoadContracts(*repo)
		prog, pkgs, err := loadProgram(*repo, nil)
		if err != nil {
			fmt.Println(err)
			os.Exit(2)
		}
		v := &Verifier{prog: prog, pkgs: pkgs, cs: cs}
		seen := map[string]bool{}
		for _, k := range cs.Order {
			c := cs.Funcs[k]
			key := c.Pkg + "." + c.Key
			if i := strings.Index(key, "#"); i >= 0 {
				key = key[:i]
			}
			if seen[key] || c.Trusted {
				continue
			}
			seen[key] = true
			fn := v.findFunc(key)
			if fn == nil {
				continue
			}
			fns := append([]*ssa.Function{fn}, fn.AnonFuncs...)
			if callsItself(fn) {
				fmt.Printf("%s recursive\n", key)
			}
			for _, f := range fns {
				body := bodyOf(f)
				for _, li := range findLoops(body) {
					d := ""
					if ls := c.Loops[li.ord]; ls != nil && f == fn {
						if ls.Unreach {
							d = "unreachable_backedge"
						} else if len(ls.Decr) > 0 {
							d = "decreases"
						}
					}
					fmt.Printf("%s %s loop %d kind=%s %s\n", key, f.Name(), li.ord, loopKind(li), d)
				}
			}
		}
		os.Exit(0)
	case "names":
		prog, pkgs, err := loadProgram(*repo, nil)
		if err != nil {
			fmt.Println(err)
			os.Exit(2)
		}
		if err := writeNameBaseline(prog, pkgs, filepath.Join(*verifDir, "names.json")); err != nil {
			fmt.Println(err)
			os.Exit(2)
		}
		os.Exit(0)
	case "mutants":
		n := 12
		if v := os.Getenv("GOVC_MUTANTS_PER_FUNC"); v != "" {
			fmt.Sscanf(v, "%d", &n)
		}
		os.Exit(runMutants(prop, *repo, *verifDir, n, *workers))
	case "check":
		os.Exit(runCheck(prop, *repo, *verifDir, *tier, *only, *workers, *verbose, *noEvidence))
	default:
		fmt.Fprintln(os.Stderr, "unknown command", cmd)
		os.Exit(2)
	}
}

func runCheck(prop, repo, verifDir, tier, only string, workers int, verbose, noEvidence bool) int {
	t0 := time.Now()
	loadNameBaseline(filepath.Join(verifDir, "names.json"))
	for _, e := range loadKnownFindings(filepath.Join(verifDir, "KNOWN_FINDINGS.txt")).entries {
		if e.prop == prop {
			knownFindingBases[e.ob] = true
		}
	}
	cs, err := LoadContracts(repo)
	if err != nil {
		fmt.Println("ERROR loading contracts:", err)
		return 2
	}
	var extra []string
	needStd := prop == "C06" || prop == "C16" || prop == "all" || len(cs.Pairs) > 0
	if needStd {
		extra = []string{"container/list", "container/ring"}
	}
	prog, pkgs, err := loadProgram(repo, extra)
	if err != nil {
		fmt.Println("ERROR loading packages:", err)
		return 2
	}
	v := &Verifier{prog: prog, pkgs: pkgs, cs: cs}
	loadSecs := time.Since(t0).Seconds()

	// select functions
	var keys []string
	for _, k := range cs.Order {
		c := cs.Funcs[k]
		if only != "" {
			if k == only || strings.HasPrefix(k, only+"#") {
				keys = append(keys, k)
			}
			continue
		}
		if c.Trusted {
			continue
		}
		if prop == "all" || prop == "" {
			keys = append(keys, k)
			continue
		}
		for _, p := range c.Props {
			if p == prop {
				keys = append(keys, k)
				break
			}
		}
	}
	var pairs []Pair
	for _, p := range cs.Pairs {
		if only != "" {
			if p.Fork == only {
				pairs = append(pairs, p)
			}
			continue
		}
		if prop == "all" || prop == "" || p.Prop == prop || (prop == "C16" && strings.Contains(p.Prop, "C16")) || strings.Contains(","+p.Prop+",", ","+prop+",") {
			pairs = append(pairs, p)
		}
	}
	var lemmas []*Axiom
	for _, l := range cs.Lemmas {
		if only == "" && (prop == "all" || l.Prop == prop) {
			lemmas = append(lemmas, l)
		}
	}
	if len(keys) == 0 && len(pairs) == 0 && len(lemmas) == 0 {
		fmt.Printf("ERROR: no functions under contract for %s\n", prop)
		return 2
	}
	var runs []*FuncRun
	var allObs []*Obligation
	var removedHelpers []string
	orphanContracts = nil
	for _, k := range cs.Order {
		if c := cs.Funcs[k]; c != nil && !c.Trusted && len(c.Loops) > 0 && v.findFunc(k) == nil {
			orphanContracts = append(orphanContracts, c)
		}
	}
	relAlias := [][2]string{{"lists_Element_T_", "RelElement"}, {"list_Element", "RelElement"}, {"lists_List_T_", "RelList"}, {"list_List", "RelList"}, {"lists_Ring_T_", "RelRing"}, {"ring_Ring", "RelRing"}}
	for _, l := range lemmas {
		r := v.VerifyLemma(l)
		runs = append(runs, r)
		allObs = append(allObs, r.Obs...)
	}
	for _, p := range pairs {
		r := v.VerifyPair(p.Fork, p.Orig, relAlias)
		runs = append(runs, r)
		allObs = append(allObs, r.Obs...)
	}
	for _, k := range keys {
		c := cs.Funcs[k]
		fn := v.findFunc(k)
		if fn == nil {
			// an unexported helper that no longer exists (inlined into its caller, renamed): its contract has no
			// subject and no client; the callers' own obligations decide. A vanished exported function is reported.
			base := k
			if i := strings.Index(base, "#"); i >= 0 {
				base = base[:i]
			}
			name := base[strings.LastIndex(base, ".")+1:]
			if name != "" && !token.IsExported(name) {
				fmt.Printf("NOTE %s: contract ignored, the unexported function no longer exists\n", k)
				removedHelpers = append(removedHelpers, k)
				continue
			}
			runs = append(runs, &FuncRun{Key: k, Err: fmt.Errorf("function not found")})
			continue
		}
		bv := fn.Pkg != nil && fn.Pkg.Pkg.Name() == "typ"
		for _, cl := range classesFor(fn, c, bv) {
			r := v.VerifyFunc(k, c, cl)
			runs = append(runs, r)
			allObs = append(allObs, r.Obs...)
		}
	}
	genSecs := time.Since(t0).Seconds() - loadSecs
	results := SolveAll(allObs, workers)
	var boundedNotes []string
	boundedFail := ""
	if only == "" {
		for _, b := range cs.Bounded {
			if b.Prop != prop {
				continue
			}
			ok, sum := runBounded(b, tier, verifDir)
			if !ok {
				boundedFail = sum
			}
			boundedNotes = append(boundedNotes, "BOUNDED (not a proof): "+sum)
		}
	}
	rep := buildReport(prop, tier, runs, results, cs, time.Since(t0).Seconds(), loadSecs, genSecs, verifDir, verbose)
	if len(removedHelpers) > 0 {
		rep.evidence["coverage"].(map[string]interface{})["contracts_without_function"] = removedHelpers
	}
	term, termAssume := terminationSummary(v, cs, keys, pairs)
	rep.evidence["coverage"].(map[string]interface{})["termination"] = term
	if as, ok := rep.evidence["assumptions"].([]string); ok && len(as) > 0 {
		as[0] = termAssume
	}
	if len(boundedNotes) > 0 {
		cov := rep.evidence["coverage"].(map[string]interface{})
		cov["bounded_standins"] = boundedNotes
		for _, n := range boundedNotes {
			fmt.Println(n)
		}
	}
	if tier == "thorough" && only == "" && rep.exit == 0 && os.Getenv("GOVC_NO_MUTANTS") == "" {
		// thorough tier: a sample of first-order mutants of the functions under contract (informational)
		func() {
			defer func() { recover() }()
			if sum, _ := runMutantsCapped(prop, repo, verifDir, 6, workers, 48, false); sum != nil {
				rep.evidence["coverage"].(map[string]interface{})["mutation_sample"] = sum
				fmt.Printf("mutation sample (informational): %v mutants, %v killed by the contracts, %v survived, %v rejected by the existing tests\n", sum["mutants"], sum["killed_by_contracts"], sum["survived"], sum["rejected_by_existing_tests"])
			}
		}()
	}
	if boundedFail != "" {
		path := filepath.Join(verifDir, "out", "replays", prop+"-bounded.json")
		data, _ := json.MarshalIndent(map[string]interface{}{"property": prop, "obligation": "bounded stand-in", "failing_input": boundedFail}, "", " ")
		os.WriteFile(path, data, 0o644)
		fmt.Printf("VIOLATION property=%s replay=%s\n", prop, path)
		rep.exit = 1
		rep.evidence["violations"] = rep.evidence["violations"].(int) + 1
	}
	if !noEvidence && prop != "" && prop != "all" && only == "" {
		if err := rep.writeEvidence(verifDir); err != nil {
			fmt.Println("ERROR writing evidence:", err)
			return 2
		}
	}
	return rep.exit
}

// ---------------------------------------------------------------------------

type report struct {
	prop      string
	tier      string
	exit      int
	evidence  map[string]interface{}
}

func buildReport(prop, tier string, runs []*FuncRun, results []*Result, cs *ContractSet, wall, loadSecs, genSecs float64, verifDir string, verbose bool) *report {
	rep := &report{prop: prop, tier: tier}
	known := loadKnownFindings(filepath.Join(verifDir, "KNOWN_FINDINGS.txt"))
	var obs []obReport
	discharged, total := 0, 0
	covers, coverOK := 0, 0
	solverSecs := 0.0
	bySolver := map[string]int{}
	var failures []*Result
	for _, r := range results {
		solverSecs += r.Time
		or := obReport{Name: r.Ob.Name, Kind: r.Ob.Kind, Status: r.Status, Solver: r.Solver, Secs: round3(r.Wall), Note: r.Ob.Note}
		obs = append(obs, or)
		if r.Ob.Cover {
			covers++
			if r.Status == "sat" {
				coverOK++
			} else {
				failures = append(failures, r)
			}
			continue
		}
		total++
		if r.Status == "unsat" {
			discharged++
			bySolver[r.Solver]++
		} else {
			failures = append(failures, r)
		}
	}
	var funcs []string
	var outside []string
	trusted := map[string]bool{}
	callees := map[string]bool{}
	notes := map[string]bool{}
	for _, r := range runs {
		name := r.Key
		if r.Class != "" {
			name += "[" + r.Class + "]"
		}
		if r.Err != nil {
			outside = append(outside, fmt.Sprintf("%s: %v", name, r.Err))
			continue
		}
		funcs = append(funcs, fmt.Sprintf("%s (%d obligations, %d paths)", name, len(r.Obs), r.Paths))
		for _, t := range r.Trusted {
			trusted[t] = true
		}
		for _, t := range r.Callees {
			callees[t] = true
		}
		for _, n := range r.Notes {
			notes[n] = true
		}
	}
	violations := 0
	knownHits := 0
	knownSeen := map[string]bool{}
	knownObs := 0 // failing obligations that are recorded known findings: reported, not part of the proved set
	os.MkdirAll(filepath.Join(verifDir, "out", "replays"), 0o755)
	for _, f := range failures {
		base := obligationBase(f.Ob.Name)
		if kf, ok := known.match(prop, base); ok {
			knownObs++
			if !knownSeen[base] {
				knownSeen[base] = true
				knownHits++
				fmt.Printf("KNOWN-FINDING: property=%s %s (%s)\n", prop, base, kf)
			}
			continue
		}
		violations++
		path := filepath.Join(verifDir, "out", "replays", fmt.Sprintf("%s-%s.json", prop, sanitize(f.Ob.Name)))
		rp := map[string]interface{}{
			"property":   prop,
			"obligation": f.Ob.Name,
			"kind":       f.Ob.Kind,
			"clause":     f.Ob.Note,
			"status":     f.Status,
			"solver":     f.Solver,
			"model":      f.ModelKV,
			"solver_output": truncate(f.Output, 4000),
		}
		suffix := ""
		replayed := tryReplay(prop, f, rp, verifDir)
		if !replayed {
			suffix = " no-failing-input-found"
		}
		data, _ := json.MarshalIndent(rp, "", " ")
		os.WriteFile(path, data, 0o644)
		what := "obligation failed"
		if f.Ob.Cover {
			what = "vacuity guard failed (precondition or path unsatisfiable)"
		}
		fmt.Printf("FAILED %s: %s [%s by %s]\n", f.Ob.Name, what, f.Status, f.Solver)
		if f.Model != "" && verbose {
			fmt.Print(f.Model)
		}
		fmt.Printf("VIOLATION property=%s replay=%s%s\n", prop, path, suffix)
	}
	for _, o := range outside {
		// a function under contract that cannot be translated is a broken check, not a pass
		violations++
		path := filepath.Join(verifDir, "out", "replays", fmt.Sprintf("%s-outside-%s.json", prop, sanitize(o)))
		rp := map[string]interface{}{"property": prop, "obligation": "translate", "error": o,
			"explanation": "the function's code no longer matches its contract annotations (renamed variables, a loop without invariant, an unmodelled construct): its obligations cannot be generated, so the property is undecided for it; the public-API oracle is run to look for a concrete failing input"}
		fname := o
		if i := strings.Index(fname, ":"); i > 0 {
			fname = fname[:i]
		}
		suffix := " no-failing-input-found"
		fake := &Result{Ob: &Obligation{Name: fname + "/translate", Func: fname, Kind: "translate"}}
		if replayCounterexample(prop, fake, rp, verifDir) {
			suffix = ""
		}
		data, _ := json.MarshalIndent(rp, "", " ")
		if len(path) > 200 {
			path = path[:200] + ".json"
		}
		os.WriteFile(path, data, 0o644)
		fmt.Printf("FAILED %s\n", o)
		fmt.Printf("VIOLATION property=%s replay=%s%s\n", prop, path, suffix)
	}
	if total == 0 && len(outside) == 0 {
		fmt.Println("ERROR: zero obligations generated")
		violations++
	}
	fmt.Printf("property %s tier %s: %d functions, %d/%d obligations discharged, %d/%d cover checks ok, %d known findings, %d violations, wall %.1fs (load %.1fs, vcgen %.1fs, solver cpu %.1fs)\n",
		prop, tier, len(funcs), discharged, total, coverOK, covers, knownHits, violations, wall, loadSecs, genSecs, solverSecs)
	if verbose {
		for _, o := range obs {
			fmt.Printf("  %-8s %-14s %6.2fs %s\n", o.Status, o.Solver, o.Secs, o.Name)
		}
	}
	if violations > 0 {
		rep.exit = 1
	}
	// evidence
	var samples []interface{}
	for i, o := range obs {
		if i%maxInt(1, len(obs)/12) == 0 {
			samples = append(samples, o)
		}
	}
	var tb []string
	tb = append(tb, "govc VC generator (this repository's /verif/engine): semantics of the go/ssa subset, heap/slice/map models, contract parser",
		"golang.org/x/tools v0.29.0 go/packages + go/ssa builder", "SMT solvers: z3 5.1.0 (z3-new), z3 4.8.12, cvc5 1.0.3")
	for t := range trusted {
		tb = append(tb, t)
	}
	sort.Strings(tb[3:])
	var cl []string
	for c := range callees {
		cl = append(cl, c)
	}
	sort.Strings(cl)
	var nl []string
	for n := range notes {
		nl = append(nl, n)
	}
	sort.Strings(nl)
	seed := optSeed
	ev := map[string]interface{}{
		"property_id": prop,
		"tier":        tier,
		"seed":        seed,
		"level":       "proof",
		"wall_s":      round3(wall),
		"violations":  violations,
		"coverage": map[string]interface{}{
			"obligations":          total - knownObs,
			"discharged":           discharged,
			"obligations_generated": total,
			"known_finding_obligations": knownObs,
			"explanation": "obligations = generated obligations minus those that fail and are recorded known findings (KNOWN_FINDINGS.txt, printed as KNOWN-FINDING lines); the proof-level claim is about the remaining ones, all of which must be discharged",
			"checker_cmd":          fmt.Sprintf("/verif/bin/check %s %s", prop, tier),
			"trusted_base":         tb,
			"functions_under_contract": funcs,
			"functions_outside_subset": outside,
			"callee_contracts_used":    cl,
			"discharged_by_backend":    bySolver,
			"cover_checks":             covers,
			"cover_checks_sat":         coverOK,
			"solver_cpu_s":             round3(solverSecs),
			"load_s":                   round3(loadSecs),
			"vcgen_s":                  round3(genSecs),
			"known_findings_matched":   knownHits,
			"per_obligation":           obs,
			"samples":                  samples,
			"engine_notes":             nl,
		},
		"assumptions": append(assumptionList(prop), relevantScan(cs.Scan, runs, callees)...),
	}
	rep.evidence = ev
	return rep
}

func maxInt(a, b int) int {
	if a > b {
		return a
	}
	return b
}

func round3(f float64) float64 { return float64(int(f*1000+0.5)) / 1000 }

func truncate(s string, n int) string {
	if len(s) > n {
		return s[:n] + "…"
	}
	return s
}

func (r *report) writeEvidence(verifDir string) error {
	dir := filepath.Join(verifDir, "evidence")
	os.MkdirAll(dir, 0o755)
	data, err := json.MarshalIndent(r.evidence, "", " ")
	if err != nil {
		return err
	}
	return os.WriteFile(filepath.Join(dir, r.prop+".json"), data, 0o644)
}

// obligationBase strips the path suffix: names in KNOWN_FINDINGS.txt are path independent.
var lineTag = regexp.MustCompile(`@L[0-9]+|@\?`)

// obligationBase: the obligation name without its path id and without source line tags, so that known findings
// survive unrelated edits.
func obligationBase(name string) string {
	if i := strings.LastIndex(name, "/"); i > 0 {
		name = name[:i]
	}
	return lineTag.ReplaceAllString(name, "")
}

type knownFindings struct {
	entries []struct{ prop, ob, text string }
}

func loadKnownFindings(path string) *knownFindings {
	kf := &knownFindings{}
	data, err := os.ReadFile(path)
	if err != nil {
		return kf
	}
	for _, ln := range strings.Split(string(data), "\n") {
		ln = strings.TrimSpace(ln)
		if !strings.HasPrefix(ln, "finding:") {
			continue
		}
		// finding: property=C10 obligation=<base name> <text>
		f := strings.Fields(strings.TrimPrefix(ln, "finding:"))
		var p, o string
		var rest []string
		for _, x := range f {
			switch {
			case strings.HasPrefix(x, "property="):
				p = strings.TrimPrefix(x, "property=")
			case strings.HasPrefix(x, "obligation="):
				o = strings.TrimPrefix(x, "obligation=")
			default:
				rest = append(rest, x)
			}
		}
		kf.entries = append(kf.entries, struct{ prop, ob, text string }{p, o, strings.Join(rest, " ")})
	}
	return kf
}

func (k *knownFindings) match(prop, base string) (string, bool) {
	for _, e := range k.entries {
		if e.prop == prop && e.ob == base {
			return e.text, true
		}
	}
	return "", false
}

// terminationSummary: what the check establishes about termination of the functions under contract. `for` loops carry a
// proved variant (obligation decreases[loopN]) or a proved-unreachable back edge; range loops over slices, integers and
// maps terminate by Go's semantics; directly recursive functions carry a proved measure (obligation call-decreases).
// Everything else is listed as not shown to terminate.
func terminationSummary(v *Verifier, cs *ContractSet, keys []string, pairs []Pair) (map[string]interface{}, string) {
	variant, unreach, byRange, measured := 0, 0, 0, 0
	var missing []string
	var relative []string
	for _, p := range pairs {
		if fn := v.findFunc(p.Fork); fn != nil {
			for _, li := range findLoops(bodyOf(fn)) {
				relative = append(relative, fmt.Sprintf("%s: loop %d", p.Fork, li.ord))
			}
		}
	}
	sort.Strings(relative)
	seen := map[string]bool{}
	for _, k := range keys {
		c := cs.Funcs[k]
		base := k
		if i := strings.Index(base, "#"); i >= 0 {
			base = base[:i]
		}
		if seen[base] {
			continue
		}
		seen[base] = true
		fn := v.findFunc(k)
		if fn == nil {
			continue
		}
		if callsItself(fn) {
			if len(c.Decr) > 0 {
				measured++
			} else {
				missing = append(missing, base+": direct recursion without a measure")
			}
		}
		for _, f := range append([]*ssa.Function{fn}, fn.AnonFuncs...) {
			for _, li := range findLoops(bodyOf(f)) {
				switch loopKind(li) {
				case "range-index", "range-iter":
					byRange++
					continue
				}
				ls := c.Loops[li.ord]
				switch {
				case f == fn && ls != nil && ls.Unreach:
					unreach++
				case f == fn && ls != nil && len(ls.Decr) > 0:
					variant++
				default:
					missing = append(missing, fmt.Sprintf("%s: loop %d (%s) of %s without a variant", base, li.ord, loopKind(li), f.Name()))
				}
			}
		}
	}
	sort.Strings(missing)
	m := map[string]interface{}{
		"for_loops_with_proved_variant":              variant,
		"loops_with_proved_unreachable_back_edge":    unreach,
		"range_loops_terminating_by_go_semantics":    byRange,
		"recursive_functions_with_proved_measure":    measured,
		"not_shown_to_terminate":                     missing,
		"relative_termination_only":                  relative,
		"relative_termination_note":                  "loops of a fork/original pair are executed in lockstep (same number of iterations proved by the equivalence obligations): the fork terminates exactly when the standard library original does",
		"note": "blocking operations (locks, channel operations, WaitGroup.Wait), callbacks and callees without a body under contract are not shown to terminate",
	}
	as := fmt.Sprintf("termination: %d for-loop variants and %d recursion measures proved, %d back edges proved unreachable, %d range loops terminate by Go's semantics; not shown to terminate: %d loops/recursions of the functions under contract, plus blocking operations, callbacks and callees without a verified body", variant, measured, unreach, byRange, len(missing))
	return m, as
}

// relevantScan keeps the scanned assumptions (axioms, trusted contracts, declared-unreachable back edges) that the
// functions checked for this property can actually use: axioms of their own packages and of their callees' packages,
// trusted contracts of functions they call.
func relevantScan(scan []string, runs []*FuncRun, callees map[string]bool) []string {
	pkgs := map[string]bool{}
	keys := map[string]bool{}
	pkgOf := func(name string) string {
		if i := strings.Index(name, "."); i > 0 {
			return name[:i]
		}
		return name
	}
	for _, r := range runs {
		k := r.Key
		if i := strings.Index(k, "#"); i >= 0 {
			k = k[:i]
		}
		if i := strings.Index(k, "~"); i >= 0 {
			k = k[:i]
		}
		keys[k] = true
		pkgs[pkgOf(k)] = true
	}
	for c := range callees {
		pkgs[pkgOf(c)] = true
	}
	var out []string
	for _, s := range scan {
		i := strings.Index(s, ": ")
		if i < 0 {
			out = append(out, s)
			continue
		}
		head, rest := s[:i], s[i+2:]
		if j := strings.Index(head, "#"); j >= 0 {
			head = head[:j] // contract variant of a function
		}
		switch {
		case strings.HasPrefix(rest, "axiom "):
			if pkgs[head] {
				out = append(out, s)
			}
		case strings.HasPrefix(rest, "contract TRUSTED"):
			if callees[head] || keys[head] {
				out = append(out, s)
			}
		case strings.HasPrefix(rest, "loop "), strings.HasPrefix(rest, "partial interference model"):
			if keys[head] {
				out = append(out, s)
			}
		default:
			out = append(out, s)
		}
	}
	return out
}

// callsItself: direct recursion (a static call of the function, or of another instance of the same generic function).
func callsItself(fn *ssa.Function) bool {
	body := bodyOf(fn)
	for _, b := range body.Blocks {
		for _, in := range b.Instrs {
			if c, ok := in.(ssa.CallInstruction); ok {
				if cal := c.Common().StaticCallee(); cal != nil {
					if cal == fn || cal == body || (cal.Origin() != nil && (cal.Origin() == fn.Origin() || cal.Origin() == fn)) || (fn.Origin() != nil && cal == fn.Origin()) {
						return true
					}
				}
			}
		}
	}
	return false
}

func assumptionList(prop string) []string {
	return []string{
		"termination: see coverage.termination",
		"integers outside the root package are mathematical (no overflow); in package typ they are bit-vectors of their exact width (int/uint/uintptr = 64 bit)",
		"callbacks are pure, deterministic, total and non-nil unless stated",
		"the go/ssa translation of x/tools and this engine's semantics of the SSA subset are trusted",
	}
}

func tryReplay(prop string, r *Result, rp map[string]interface{}, verifDir string) bool {
	return replayCounterexample(prop, r, rp, verifDir)
}
