package main

// SMT term construction, script emission and the solver portfolio.

import (
	"bytes"
	"context"
	"fmt"
	"os"
	"os/exec"
	"sort"
	"strings"
	"sync"
	"syscall"
	"time"
)

type Sort string

const (
	SInt  Sort = "Int"
	SBool Sort = "Bool"
)

func BV(w int) Sort { return Sort(fmt.Sprintf("(_ BitVec %d)", w)) }
func (s Sort) IsBV() bool {
	return strings.HasPrefix(string(s), "(_ BitVec")
}
func (s Sort) BVWidth() int {
	var w int
	fmt.Sscanf(string(s), "(_ BitVec %d)", &w)
	return w
}
func (s Sort) IsFP() bool { return strings.HasPrefix(string(s), "(_ FloatingPoint") }
func ArrSort(idx, el Sort) Sort {
	return Sort("(Array " + string(idx) + " " + string(el) + ")")
}

type Term struct {
	S    string
	Sort Sort
}

func (t Term) String() string { return t.S }

func T(sort Sort, format string, a ...interface{}) Term {
	return Term{fmt.Sprintf(format, a...), sort}
}

var (
	True  = Term{"true", SBool}
	False = Term{"false", SBool}
)

func IntLit(n int64) Term {
	if n < 0 {
		return Term{fmt.Sprintf("(- %d)", -n), SInt}
	}
	return Term{fmt.Sprintf("%d", n), SInt}
}

func BVLit(w int, n uint64) Term {
	if w < 64 {
		n &= (uint64(1) << uint(w)) - 1
	}
	return Term{fmt.Sprintf("(_ bv%d %d)", n, w), BV(w)}
}

func And(ts ...Term) Term {
	var parts []string
	for _, t := range ts {
		if t.S == "true" {
			continue
		}
		if t.S == "false" {
			return False
		}
		parts = append(parts, t.S)
	}
	switch len(parts) {
	case 0:
		return True
	case 1:
		return Term{parts[0], SBool}
	}
	return Term{"(and " + strings.Join(parts, " ") + ")", SBool}
}

func Or(ts ...Term) Term {
	var parts []string
	for _, t := range ts {
		if t.S == "false" {
			continue
		}
		if t.S == "true" {
			return True
		}
		parts = append(parts, t.S)
	}
	switch len(parts) {
	case 0:
		return False
	case 1:
		return Term{parts[0], SBool}
	}
	return Term{"(or " + strings.Join(parts, " ") + ")", SBool}
}

func Not(t Term) Term {
	if t.S == "true" {
		return False
	}
	if t.S == "false" {
		return True
	}
	if strings.HasPrefix(t.S, "(not ") {
		return Term{t.S[5 : len(t.S)-1], SBool}
	}
	return Term{"(not " + t.S + ")", SBool}
}

func Implies(a, b Term) Term {
	if a.S == "true" {
		return b
	}
	if a.S == "false" || b.S == "true" {
		return True
	}
	return Term{"(=> " + a.S + " " + b.S + ")", SBool}
}

func Eq(a, b Term) Term {
	if a.S == b.S {
		return True
	}
	if a.Sort.IsFP() {
		return Term{"(fp.eq " + a.S + " " + b.S + ")", SBool}
	}
	return Term{"(= " + a.S + " " + b.S + ")", SBool}
}

func Ite(c, a, b Term) Term {
	if c.S == "true" {
		return a
	}
	if c.S == "false" {
		return b
	}
	if a.S == b.S {
		return a
	}
	return Term{"(ite " + c.S + " " + a.S + " " + b.S + ")", a.Sort}
}

func Add(a, b Term) Term {
	if b.S == "0" {
		return a
	}
	if a.S == "0" {
		return b
	}
	return Term{"(+ " + a.S + " " + b.S + ")", SInt}
}
func Sub(a, b Term) Term {
	if b.S == "0" {
		return a
	}
	return Term{"(- " + a.S + " " + b.S + ")", SInt}
}
func Mul(a, b Term) Term { return Term{"(* " + a.S + " " + b.S + ")", SInt} }
func Lt(a, b Term) Term  { return Term{"(< " + a.S + " " + b.S + ")", SBool} }
func Le(a, b Term) Term  { return Term{"(<= " + a.S + " " + b.S + ")", SBool} }
func Ge(a, b Term) Term  { return Le(b, a) }
func Gt(a, b Term) Term  { return Lt(b, a) }
func Select(a, i Term) Term {
	// peephole: select(store(A, i, v), i) == v
	if strings.HasPrefix(a.S, "(store ") && strings.HasSuffix(a.S, ")") {
		inner := a.S[len("(store ") : len(a.S)-1]
		parts := splitSexprs(inner)
		if len(parts) == 3 && parts[1] == i.S {
			return Term{parts[2], arrElem(a.Sort)}
		}
	}
	return Term{"(select " + a.S + " " + i.S + ")", arrElem(a.Sort)}
}

// splitSexprs splits a string into its top-level s-expressions.
func splitSexprs(s string) []string {
	var out []string
	depth := 0
	start := -1
	for i := 0; i < len(s); i++ {
		c := s[i]
		switch {
		case c == '(':
			if depth == 0 && start < 0 {
				start = i
			}
			depth++
		case c == ')':
			depth--
			if depth == 0 {
				out = append(out, s[start:i+1])
				start = -1
			}
		case c == ' ':
			if depth == 0 && start >= 0 {
				out = append(out, s[start:i])
				start = -1
			}
		default:
			if depth == 0 && start < 0 {
				start = i
			}
		}
	}
	if start >= 0 {
		out = append(out, s[start:])
	}
	return out
}
func Store(a, i, v Term) Term {
	return Term{"(store " + a.S + " " + i.S + " " + v.S + ")", a.Sort}
}

// arrElem returns the element sort of "(Array I E)".
func arrElem(s Sort) Sort {
	str := string(s)
	if !strings.HasPrefix(str, "(Array ") {
		panic("arrElem: not an array sort: " + str)
	}
	body := str[len("(Array ") : len(str)-1]
	// split the two top-level s-expressions
	depth := 0
	for i, c := range body {
		switch c {
		case '(':
			depth++
		case ')':
			depth--
		case ' ':
			if depth == 0 {
				return Sort(body[i+1:])
			}
		}
	}
	panic("arrElem: malformed " + str)
}
func arrIndex(s Sort) Sort {
	str := string(s)
	body := str[len("(Array ") : len(str)-1]
	depth := 0
	for i, c := range body {
		switch c {
		case '(':
			depth++
		case ')':
			depth--
		case ' ':
			if depth == 0 {
				return Sort(body[:i])
			}
		}
	}
	panic("arrIndex: malformed " + str)
}

// ---------------------------------------------------------------------------
// Declarations shared by all obligations of one function run.

type Decl struct {
	Name string
	Text string // z3 dialect
	Alt  string // cvc5 dialect ("" = same)
}

type Ctx struct {
	mu      sync.Mutex
	decls   []Decl
	seen    map[string]bool
	counter map[string]int
	sorts   map[string]bool
}

func NewCtx() *Ctx {
	return &Ctx{seen: map[string]bool{}, counter: map[string]int{}, sorts: map[string]bool{}}
}

func (c *Ctx) DeclareSort(name string) Sort {
	c.mu.Lock()
	defer c.mu.Unlock()
	if !c.sorts[name] {
		c.sorts[name] = true
		c.decls = append(c.decls, Decl{Name: name, Text: "(declare-sort " + name + " 0)"})
	}
	return Sort(name)
}

func sanitize(s string) string {
	var b strings.Builder
	for _, r := range s {
		switch {
		case r >= 'a' && r <= 'z', r >= 'A' && r <= 'Z', r >= '0' && r <= '9', r == '_':
			b.WriteRune(r)
		case r == '.' || r == '$' || r == '#':
			b.WriteRune('_')
		default:
			b.WriteRune('_')
		}
	}
	return b.String()
}

// Fresh declares a new constant.
func (c *Ctx) Fresh(hint string, sort Sort) Term {
	c.mu.Lock()
	defer c.mu.Unlock()
	hint = sanitize(hint)
	n := c.counter[hint]
	c.counter[hint] = n + 1
	name := fmt.Sprintf("%s!%d", hint, n)
	c.decls = append(c.decls, Decl{Name: name, Text: fmt.Sprintf("(declare-const %s %s)", name, sort)})
	return Term{name, sort}
}

// Const declares a named constant once.
func (c *Ctx) Const(name string, sort Sort) Term {
	c.mu.Lock()
	defer c.mu.Unlock()
	name = sanitize(name)
	if !c.seen[name] {
		c.seen[name] = true
		c.decls = append(c.decls, Decl{Name: name, Text: fmt.Sprintf("(declare-const %s %s)", name, sort)})
	}
	return Term{name, sort}
}

// Fun declares an uninterpreted function once.
func (c *Ctx) Fun(name string, args []Sort, ret Sort) string {
	c.mu.Lock()
	defer c.mu.Unlock()
	name = sanitize(name)
	if !c.seen[name] {
		c.seen[name] = true
		var as []string
		for _, a := range args {
			as = append(as, string(a))
		}
		c.decls = append(c.decls, Decl{Name: name, Text: fmt.Sprintf("(declare-fun %s (%s) %s)", name, strings.Join(as, " "), ret)})
	}
	return name
}

func (c *Ctx) App(name string, ret Sort, args ...Term) Term {
	var as []Sort
	var ss []string
	for _, a := range args {
		as = append(as, a.Sort)
		ss = append(ss, a.S)
	}
	n := c.Fun(name, as, ret)
	if len(args) == 0 {
		return Term{n, ret}
	}
	return Term{"(" + n + " " + strings.Join(ss, " ") + ")", ret}
}

// Axiom adds a global assertion once (keyed by its text).
func (c *Ctx) Axiom(key string, text string) {
	c.mu.Lock()
	defer c.mu.Unlock()
	if c.seen["axiom:"+key] {
		return
	}
	c.seen["axiom:"+key] = true
	c.decls = append(c.decls, Decl{Name: "axiom:" + key, Text: "(assert " + text + ")"})
}

// DefArray declares an array constant defined pointwise: name[k] = body(k).
// z3 gets a lambda (exact; yields models), cvc5 a quantified definition.
func (c *Ctx) DefArray(hint string, idx Sort, el Sort, bodyOf func(k Term) Term) Term {
	c.mu.Lock()
	hint = sanitize(hint)
	n := c.counter[hint]
	c.counter[hint] = n + 1
	name := fmt.Sprintf("%s!%d", hint, n)
	kn := fmt.Sprintf("k!%s", name)
	c.mu.Unlock()
	k := Term{kn, idx}
	body := bodyOf(k)
	sort := ArrSort(idx, el)
	z := fmt.Sprintf("(define-fun %s () %s (lambda ((%s %s)) %s))", name, sort, kn, idx, body.S)
	cv := fmt.Sprintf("(declare-const %s %s)\n(assert (forall ((%s %s)) (! (= (select %s %s) %s) :pattern ((select %s %s)))))", name, sort, kn, idx, name, kn, body.S, name, kn)
	c.mu.Lock()
	c.decls = append(c.decls, Decl{Name: name, Text: z, Alt: cv})
	c.mu.Unlock()
	return Term{name, sort}
}

func (c *Ctx) Snapshot() int {
	c.mu.Lock()
	defer c.mu.Unlock()
	return len(c.decls)
}

// Script renders the declarations for one dialect.
func (c *Ctx) Script(dialect string) string {
	c.mu.Lock()
	defer c.mu.Unlock()
	var b strings.Builder
	for _, d := range c.decls {
		if dialect == "cover-noq" {
			dialect = "cover"
		}
		if dialect == "cover" && strings.HasPrefix(d.Name, "axiom:") && strings.Contains(d.Text, "(forall ") {
			// consistent background axioms are dropped from vacuity (cover) queries so that "sat" is decidable
			continue
		}
		if dialect == "cover" && d.Alt != "" {
			// definitions of fresh array constants are conservative: a cover query may drop them
			b.WriteString(strings.SplitN(d.Alt, "\n", 2)[0])
		} else if dialect != "z3" && d.Alt != "" {
			b.WriteString(d.Alt)
		} else {
			b.WriteString(d.Text)
		}
		b.WriteByte('\n')
	}
	return b.String()
}

// ---------------------------------------------------------------------------
// Obligations and solving.

type Obligation struct {
	Name    string
	Kind    string
	Func    string
	Assume  []Term
	Goal    Term
	Ctx     *Ctx
	Inputs  map[string]Term // named input terms for model extraction
	Note    string
	Cover   bool // cover query: expected SAT (vacuity guard)
	Alts    [][]Term // cover: alternative assumption sets; one satisfiable suffices
	Bounded string
}

type Result struct {
	Ob      *Obligation
	Status  string // unsat | sat | unknown | timeout | error
	Solver  string
	Time    float64
	Model   string
	Output  string
	Script  string
	ModelKV map[string]string
	Wall    float64
}

func (o *Obligation) script(dialect string, wantModel bool) string {
	var b strings.Builder
	if dialect == "cvc5" {
		b.WriteString("(set-option :produce-models true)\n(set-logic ALL)\n")
	} else if dialect == "cover" || dialect == "cover-noq" {
	} else {
		b.WriteString("(set-option :smt.mbqi true)\n")
	}
	b.WriteString(o.Ctx.Script(dialect))
	for _, a := range o.Assume {
		if a.S == "true" {
			continue
		}
		if dialect == "cover-noq" && strings.Contains(a.S, "(forall ") {
			continue
		}
		b.WriteString("(assert " + a.S + ")\n")
	}
	if o.Cover {
		b.WriteString("(assert " + o.Goal.S + ")\n")
	} else {
		b.WriteString("(assert (not " + o.Goal.S + "))\n")
	}
	b.WriteString("(check-sat)\n")
	if wantModel && len(o.Inputs) > 0 {
		var names []string
		for n := range o.Inputs {
			names = append(names, n)
		}
		sort.Strings(names)
		for _, n := range names {
			b.WriteString(fmt.Sprintf("(echo \"@@ %s\")\n(get-value (%s))\n", n, o.Inputs[n].S))
		}
	}
	return b.String()
}

type solverSpec struct {
	name    string
	bin     string
	dialect string
	args    func(timeoutMs int, seed int) []string
}

var solvers = []solverSpec{
	{"z3-new-5.1.0", "z3-new", "z3", func(t, seed int) []string {
		return []string{"-in", fmt.Sprintf("-t:%d", t), fmt.Sprintf("smt.random_seed=%d", seed)}
	}},
	{"z3-4.8.12", "z3", "z3", func(t, seed int) []string {
		return []string{"-in", fmt.Sprintf("-t:%d", t), fmt.Sprintf("smt.random_seed=%d", seed)}
	}},
	{"cvc5-1.0.3", "cvc5", "cvc5", func(t, seed int) []string {
		return []string{"--lang=smt2", fmt.Sprintf("--tlimit-per=%d", t), fmt.Sprintf("--seed=%d", seed), "--full-saturate-quant"}
	}},
}

func runSolver(sp solverSpec, script string, timeoutMs int, seed int) (status, out string, secs float64) {
	return runSolverCtx(context.Background(), sp, script, timeoutMs, seed)
}

func runSolverCtx(parent context.Context, sp solverSpec, script string, timeoutMs int, seed int) (status, out string, secs float64) {
	ctx, cancel := context.WithTimeout(parent, time.Duration(timeoutMs+2000)*time.Millisecond)
	defer cancel()
	cmd := exec.CommandContext(ctx, sp.bin, sp.args(timeoutMs, seed)...)
	cmd.SysProcAttr = &syscall.SysProcAttr{Setpgid: true}
	cmd.Cancel = func() error {
		if cmd.Process != nil {
			return syscall.Kill(-cmd.Process.Pid, syscall.SIGKILL)
		}
		return nil
	}
	cmd.WaitDelay = 200 * time.Millisecond
	cmd.Stdin = strings.NewReader(script)
	var buf bytes.Buffer
	cmd.Stdout = &buf
	cmd.Stderr = &buf
	t0 := time.Now()
	_ = cmd.Run()
	secs = time.Since(t0).Seconds()
	out = buf.String()
	first := ""
	for _, ln := range strings.Split(out, "\n") {
		ln = strings.TrimSpace(ln)
		if ln == "" || strings.HasPrefix(ln, "WARNING") {
			continue
		}
		first = ln
		break
	}
	switch first {
	case "unsat":
		return "unsat", out, secs
	case "sat":
		return "sat", out, secs
	case "unknown":
		return "unknown", out, secs
	case "timeout":
		return "timeout", out, secs
	}
	if ctx.Err() != nil {
		return "timeout", out, secs
	}
	if strings.Contains(out, "timeout") {
		return "timeout", out, secs
	}
	return "error", out, secs
}

var (
	optTimeoutMs = 10000
	optSeed      = 0
	optTwoBackends = false
	optDumpDir   = ""
)

// Solve discharges one obligation.
//
// Array definitions are emitted as quantified definitions (all three back ends
// agree on them); an obligation is discharged iff some back end answers
// "unsat".  z3 5.1.0 was observed to answer "sat" with an invalid model on
// valid VCs written with array lambdas, so the lambda form is used only to
// look for a counterexample model after all back ends failed to discharge the
// obligation, and such a model is only ever a hint for the replay.
// knownFindingBases: obligation base names recorded as known findings of the property being checked.
var knownFindingBases = map[string]bool{}

// Solve discharges one obligation; when no back end produced any verdict at all (the processes could not be started or
// died: an exhausted machine, not an answer) it waits and tries again, a few times.
func Solve(o *Obligation) *Result {
	var r *Result
	for attempt := 0; attempt < 4; attempt++ {
		r = solveOnce(o)
		if r.Status != "error" || strings.Contains(r.Output, "(error") {
			return r // a verdict, or a complaint of the solver about the script: not an exhausted machine
		}
		time.Sleep(time.Duration(3*(attempt+1)) * time.Second)
	}
	return r
}

func solveOnce(o *Obligation) *Result {
	if o.Cover && len(o.Alts) > 0 {
		first := *o
		first.Alts = nil
		r := Solve(&first)
		for i := 0; r.Status != "sat" && i < len(o.Alts); i++ {
			alt := *o
			alt.Alts = nil
			alt.Assume = o.Alts[i]
			r = Solve(&alt)
		}
		r.Ob = o
		return r
	}
	res := &Result{Ob: o}
	qs := o.script("q", true)
	cs := o.script("cvc5", true)
	if o.Cover {
		qs = o.script("cover", false)
		cs = "(set-logic ALL)\n" + qs
	}
	res.Script = qs
	if optDumpDir != "" {
		os.MkdirAll(optDumpDir, 0o755)
		os.WriteFile(optDumpDir+"/"+sanitize(o.Name)+".smt2", []byte(qs), 0o644)
	}
	want := "unsat"
	if o.Cover {
		want = "sat"
	}
	quick := optTimeoutMs / 5
	if quick < 1500 {
		quick = 1500
	}
	st, out, secs := runSolver(solvers[0], qs, quick, optSeed)
	res.Status, res.Solver, res.Time, res.Output = st, solvers[0].name, secs, out
	if o.Cover && st != "sat" {
		// quantified assumptions (memory well-formedness, assumed invariants) make "sat" undecidable for the
		// solvers; they are consistent by construction, so the guard falls back to the quantifier-free part
		nq := o.script("cover-noq", false)
		st2, out2, secs2 := runSolver(solvers[0], nq, quick, optSeed)
		if st2 != "sat" && st2 != "unsat" {
			// a loaded machine, not a verdict: once more with the generous limit
			st2, out2, secs2 = runSolver(solvers[0], nq, optTimeoutMs*4, optSeed)
		}
		if st2 == "sat" {
			res.Status, res.Solver, res.Time, res.Output = "sat", solvers[0].name+"(quantifier-free part)", secs2, out2
			res.finish()
			return res
		}
	}
	if st == want && !(optTwoBackends && !o.Cover) {
		res.finish()
		return res
	}
	if !o.Cover && o.Goal.S == "false" && st != "unsat" {
		// the goal is literally false: the obligation holds only if the path is infeasible; when the quick pass did
		// not show that and the quantifier-free part of the path condition is satisfiable, stop here (not proved)
		nq := o.script("cover-noq", false)
		nq = strings.Replace(nq, "(assert (not false))\n", "", 1)
		if st2, _, _ := runSolver(solvers[0], nq, quick, optSeed); st2 == "sat" {
			res.Status = "unknown"
			res.Output = "goal is false and the path was not shown infeasible (its quantifier-free part is satisfiable)"
			res.finish()
			return res
		}
	}
	type r struct {
		st, out, name string
		secs          float64
	}
	ch := make(chan r, 8)
	raceCtx, cancelRace := context.WithCancel(context.Background())
	defer cancelRace()
	// the race for `unsat` is generous (it only costs time when an obligation really fails): a check must not
	// raise an alarm on the unchanged tree just because the machine is loaded. Obligations recorded as known
	// findings are expected to fail and get a short race.
	raceMs := optTimeoutMs * 4
	expectedFail := knownFindingBases[obligationBase(o.Name)]
	if expectedFail {
		raceMs = 3000
	}
	run := func(sp solverSpec, script string) {
		st, out, secs := runSolverCtx(raceCtx, sp, script, raceMs, optSeed)
		ch <- r{st, out, sp.name, secs}
	}
	n := 0
	if st != want {
		go run(solvers[0], qs)
		n++
	}
	go run(solvers[1], qs)
	go run(solvers[2], cs)
	n += 2
	if !o.Cover {
		// exact (lambda) array definitions: only an "unsat" from this form is used here
		ls := o.script("z3", true)
		for _, base := range []solverSpec{solvers[1], solvers[0]} {
			lam := base
			lam.name += "(lambda form)"
			go func() {
				st, out, secs := runSolverCtx(raceCtx, lam, ls, raceMs, optSeed)
				if st == "sat" {
					st = "unknown"
				}
				ch <- r{st, out, lam.name, secs}
			}()
			n++
		}
	}
	var agree []string
	if st == want {
		agree = append(agree, solvers[0].name)
	}
	var other *r
	for i := 0; i < n; i++ {
		x := <-ch
		if x.st == want {
			if len(agree) == 0 {
				res.Status, res.Solver, res.Time, res.Output = x.st, x.name, x.secs, x.out
			}
			agree = append(agree, x.name)
			if !optTwoBackends || o.Cover || len(agree) >= 2 {
				break
			}
		} else if (x.st == "sat" || x.st == "unsat") && other == nil {
			xx := x
			other = &xx
		} else if res.Status == "error" && x.st != "error" && len(agree) == 0 {
			res.Status, res.Solver, res.Time, res.Output = x.st, x.name, x.secs, x.out
		}
	}
	if len(agree) > 0 {
		res.Solver = strings.Join(agree, "+")
		if other != nil {
			res.Output += "\n--- note: " + other.name + " answered " + other.st + " on the same query\n"
		}
		res.finish()
		return res
	}
	if other != nil {
		res.Status, res.Solver, res.Time, res.Output = other.st, other.name, other.secs, other.out
	}
	if !o.Cover && res.Status != "sat" && !expectedFail {
		// look for a counterexample model with the exact (lambda) array definitions
		ls := o.script("z3", true)
		for _, sp := range []solverSpec{solvers[1], solvers[0]} {
			st, out, secs := runSolver(sp, ls, 5000, optSeed)
			if st == "sat" {
				res.Status, res.Solver, res.Time, res.Output = "sat", sp.name+"(lambda form)", secs, out
				break
			}
			if st == "unsat" {
				// the exact form is valid: discharged after all
				res.Status, res.Solver, res.Time, res.Output = "unsat", sp.name+"(lambda form)", secs, out
				break
			}
		}
	}
	res.finish()
	return res
}

func (r *Result) finish() {
	if r.Status != "sat" {
		return
	}
	r.ModelKV = map[string]string{}
	lines := strings.Split(r.Output, "\n")
	cur := ""
	for _, ln := range lines {
		t := strings.TrimSpace(ln)
		if strings.HasPrefix(t, "@@ ") || strings.HasPrefix(t, "\"@@ ") {
			cur = strings.Trim(strings.TrimPrefix(strings.Trim(t, "\""), "@@ "), "\" ")
			continue
		}
		if cur != "" && t != "" {
			r.ModelKV[cur] += t + " "
		}
	}
	var names []string
	for n := range r.ModelKV {
		names = append(names, n)
	}
	sort.Strings(names)
	var b strings.Builder
	for _, n := range names {
		v := strings.TrimSpace(r.ModelKV[n])
		// (get-value) prints ((term value)); keep the value
		r.ModelKV[n] = modelValue(v)
		fmt.Fprintf(&b, "%s = %s\n", n, r.ModelKV[n])
	}
	r.Model = b.String()
}

// modelValue extracts V from "((term V))".
func modelValue(s string) string {
	s = strings.TrimSpace(s)
	if !strings.HasPrefix(s, "((") {
		return s
	}
	s = s[2:]
	// skip the term
	depth := 0
	i := 0
	for i < len(s) {
		c := s[i]
		if c == '(' {
			depth++
		} else if c == ')' {
			depth--
		} else if c == ' ' && depth == 0 {
			break
		}
		i++
	}
	v := strings.TrimSpace(s[i:])
	v = strings.TrimSuffix(strings.TrimSpace(v), "))")
	v = strings.TrimSpace(v)
	// normalise (- 5) to -5
	if strings.HasPrefix(v, "(- ") && strings.HasSuffix(v, ")") {
		inner := strings.TrimSpace(v[3 : len(v)-1])
		if !strings.ContainsAny(inner, " ()") {
			return "-" + inner
		}
	}
	return v
}

// SolveAll runs obligations on a worker pool.
var solveStart time.Time

func SolveAll(obs []*Obligation, workers int) []*Result {
	solveStart = time.Now()
	out := make([]*Result, len(obs))
	var wg sync.WaitGroup
	sem := make(chan struct{}, workers)
	for i, o := range obs {
		wg.Add(1)
		sem <- struct{}{}
		go func(i int, o *Obligation) {
			defer wg.Done()
			defer func() { <-sem }()
			t0 := time.Now()
			out[i] = Solve(o)
			out[i].Wall = time.Since(t0).Seconds()
			if os.Getenv("GOVC_TRACE") != "" {
				fmt.Fprintf(os.Stderr, "[solve] %d start+%.2f dur %.2f %s\n", i, t0.Sub(solveStart).Seconds(), out[i].Wall, o.Name)
			}
		}(i, o)
	}
	wg.Wait()
	return out
}
