package main

// Frame conditions: what a function may modify of the memory that existed
// before the call ("assigns").  The same formula is (a) an automatic part of
// every loop invariant of the root function and (b) an obligation at every
// exit, so "modifies nothing else" is proved, not assumed.

import (
	"go/types"
	"strings"
)

type assignedRange struct {
	base, lo, hi Term
	elem         types.Type
}

type assignedObj struct {
	ref  Term
	root types.Type
	off  int
	n    int
}

func (e *Engine) rootAssigns() (rs []assignedRange, os []assignedObj, maps []Val, anyMaps bool, all bool) {
	if e.rootC == nil {
		return
	}
	se := &SpecEnv{e: e, st: e.entry, old: e.entry, fr: e.rootFr, vars: e.params, env: e.rootEnv, pkg: e.rootC.Pkg}
	e.bindLets(e.rootC, se)
	for _, a := range e.rootC.Assigns {
		a = strings.TrimSpace(a)
		switch {
		case strings.HasPrefix(a, "elems("):
			inner := strings.TrimSuffix(strings.TrimPrefix(a, "elems("), ")")
			parts := splitTop(inner, ',')
			ex, err := ParseSpecExpr(parts[0])
			if err != nil {
				panic(unsupported("assigns %q: %v", a, err))
			}
			sv := e.evalSpec(ex, se)
			lo, hi := IntLit(0), sv.L[2]
			if len(parts) == 3 {
				l, _ := ParseSpecExpr(parts[1])
				h, _ := ParseSpecExpr(parts[2])
				lo = e.evalSpec(l, se).L[0]
				hi = e.evalSpec(h, se).L[0]
			}
			rs = append(rs, assignedRange{base: sv.L[0], lo: Add(sv.L[1], lo), hi: Add(sv.L[1], hi), elem: resolve(elemOfSlice(sv.T), nil)})
		case strings.HasPrefix(a, "*"), strings.HasPrefix(a, "fields("):
			src := a[1:]
			if strings.HasPrefix(a, "fields(") {
				src = strings.TrimSuffix(strings.TrimPrefix(a, "fields("), ")")
			}
			ex, err := ParseSpecExpr(src)
			if err != nil {
				panic(unsupported("assigns %q: %v", a, err))
			}
			pv := e.evalSpec(ex, se)
			loc := e.locOf(pv)
			if loc.Kind == LocObj {
				os = append(os, assignedObj{ref: loc.Ref, root: loc.Root, off: loc.Off, n: loc.N})
			}
		case a == "maps":
			anyMaps = true
		case a == "heap":
			all = true
		case strings.HasPrefix(a, "map("):
			ex, err := ParseSpecExpr(strings.TrimSuffix(strings.TrimPrefix(a, "map("), ")"))
			if err != nil {
				panic(unsupported("assigns %q: %v", a, err))
			}
			maps = append(maps, e.evalSpec(ex, se))
		case strings.HasPrefix(a, "chan("), a == "chans":
		case strings.HasPrefix(a, "objects("):
		case strings.HasPrefix(a, "ghost("), strings.HasPrefix(a, "log("):
		default:
			panic(unsupported("assigns clause %q", a))
		}
	}
	return
}

// frameFormula: everything allocated before the call and not assignable is unchanged.
func (e *Engine) frameFormula(st *State) Term {
	rs, os, amaps, anyMaps, all := e.rootAssigns()
	if all {
		return True
	}
	var cs []Term
	for _, k := range sortedKeys(st.sliceHeap) {
		cur := st.sliceHeap[k]
		init := e.ctx.Const(k+"_0", cur.Sort)
		if cur.S == init.S {
			continue
		}
		// which assigned ranges live in this heap?
		var mine []assignedRange
		for _, r := range rs {
			for i := range e.lay.Leaves(r.elem) {
				if e.sliceHeapKey(r.elem, i) == k {
					mine = append(mine, r)
					break
				}
			}
		}
		var notBase []string
		for _, r := range mine {
			notBase = append(notBase, "(not (= q_b "+r.base.S+"))")
		}
		guard := "(and (< 0 q_b) (< q_b " + e.next0.S + ")"
		if len(notBase) > 0 {
			guard += " " + strings.Join(notBase, " ")
		}
		guard += ")"
		cs = append(cs, T(SBool, "(forall ((q_b Int)) (! (=> %s (= (select %s q_b) (select %s q_b))) :pattern ((select %s q_b))))", guard, cur.S, init.S, cur.S))
		for _, r := range mine {
			var inAny []Term
			for _, r2 := range mine {
				inAny = append(inAny, And(Eq(r2.base, r.base), Le(r2.lo, Term{"q_k", SInt}), Lt(Term{"q_k", SInt}, r2.hi)))
			}
			cs = append(cs, T(SBool, "(forall ((q_k Int)) (! (=> (not %s) (= (select (select %s %s) q_k) (select (select %s %s) q_k))) :pattern ((select (select %s %s) q_k))))",
				Or(inAny...).S, cur.S, r.base.S, init.S, r.base.S, cur.S, r.base.S))
		}
	}
	for _, k := range sortedKeys(st.objHeap) {
		cur := st.objHeap[k]
		init := e.ctx.Const(k+"_0", cur.Sort)
		if cur.S == init.S || e.rootAssignsObjectsOf(k) {
			continue
		}
		var notRef []string
		for _, o := range os {
			for i := 0; i < o.n; i++ {
				if e.objHeapKey(o.root, o.off+i) == k {
					notRef = append(notRef, "(not (= q_r "+o.ref.S+"))")
				}
			}
		}
		qr := e.allocID(Term{"q_r", SInt})
		guard := "(and (< 0 " + qr.S + ") (< " + qr.S + " " + e.next0.S + ")"
		if len(notRef) > 0 {
			guard += " " + strings.Join(notRef, " ")
		}
		guard += ")"
		cs = append(cs, T(SBool, "(forall ((q_r Int)) (! (=> %s (= (select %s q_r) (select %s q_r))) :pattern ((select %s q_r))))", guard, cur.S, init.S, cur.S))
	}
	if !anyMaps && !e.atomicMode() {
		// (in atomic mode the abstract maps are shared state that other goroutines change)
		cs = append(cs, e.mapFrame(st, amaps)...)
	}
	ach, anyCh := e.rootAssignedChans()
	cs = append(cs, e.chanFrame(st, ach, anyCh)...)
	return And(cs...)
}

func (e *Engine) checkFrame(st *State, kind string) {
	f := e.frameFormula(st)
	if f.S == "true" {
		return
	}
	e.obligation(st, kind, "assigns", f, "memory allocated before the call and not listed in assigns is unchanged")
}

// unchangedAll: spec builtin unchanged(): no pre-existing memory differs from the old state.
func (e *Engine) unchangedAll(se *SpecEnv) Term {
	var cs []Term
	st, old := se.st, se.old
	for _, k := range sortedKeys(st.sliceHeap) {
		cur := st.sliceHeap[k]
		var prev Term
		if p, ok := old.sliceHeap[k]; ok {
			prev = p
		} else {
			prev = e.ctx.Const(k+"_0", cur.Sort)
		}
		if cur.S == prev.S {
			continue
		}
		cs = append(cs, T(SBool, "(forall ((q_b Int)) (! (=> (and (< 0 q_b) (< q_b %s)) (= (select %s q_b) (select %s q_b))) :pattern ((select %s q_b))))", old.next.S, cur.S, prev.S, cur.S))
	}
	for _, k := range sortedKeys(st.objHeap) {
		cur := st.objHeap[k]
		var prev Term
		if p, ok := old.objHeap[k]; ok {
			prev = p
		} else {
			prev = e.ctx.Const(k+"_0", cur.Sort)
		}
		if cur.S == prev.S {
			continue
		}
		cs = append(cs, T(SBool, "(forall ((q_r Int)) (! (=> (and (< 0 q_r) (< q_r %s)) (= (select %s q_r) (select %s q_r))) :pattern ((select %s q_r))))", old.next.S, cur.S, prev.S, cur.S))
	}
	cs = append(cs, e.mapsUnchanged(st, old)...)
	return And(cs...)
}

// rootAssignedChans: the channels listed as `assigns chan(c)` (or `assigns chans`: any).
func (e *Engine) rootAssignedChans() (cs []Term, any bool) {
	if e.rootC == nil {
		return
	}
	se := &SpecEnv{e: e, st: e.entry, old: e.entry, fr: e.rootFr, vars: e.params, env: e.rootEnv, pkg: e.rootC.Pkg}
	for _, a := range e.rootC.Assigns {
		a = strings.TrimSpace(a)
		if a == "chans" {
			return nil, true
		}
		if strings.HasPrefix(a, "chan(") {
			ex, err := ParseSpecExpr(strings.TrimSuffix(strings.TrimPrefix(a, "chan("), ")"))
			if err != nil {
				panic(unsupported("assigns %q: %v", a, err))
			}
			cs = append(cs, e.evalSpec(ex, se).L[0])
		}
	}
	return
}

// objectsPrefix: `assigns objects(T)`: every object of the package's struct type T may be written.
func objectsPrefix(pkg, clause string) (string, bool) {
	clause = strings.TrimSpace(clause)
	if !strings.HasPrefix(clause, "objects(") {
		return "", false
	}
	name := strings.TrimSuffix(strings.TrimPrefix(clause, "objects("), ")")
	return "HO_" + sanitize(pkg+"."+strings.TrimSpace(name)) + "_", true
}

func (e *Engine) rootAssignsObjectsOf(heapKey string) bool {
	if e.rootC == nil {
		return false
	}
	for _, a := range e.rootC.Assigns {
		if p, ok := objectsPrefix(e.rootC.Pkg, a); ok && (strings.HasPrefix(heapKey, p) || strings.HasPrefix(heapKey+"_", p)) {
			return true
		}
	}
	return false
}
