package main

// Tolerance to pure renamings. Contracts name parameters, results and local variables of the functions they
// annotate. `govc names` records, for every function with a body, its variables in declaration order with their
// types (/verif/names.json, regenerated and committed whenever contracts change). At check time, when the variables of
// a function still have the same types in the same order but some names differ, the old names are treated as aliases of
// the new ones - so renaming a local or a parameter does not make a loop invariant unreadable. Any other change of
// the variable list disables the aliasing for that function (and an unknown name is reported as before).

import (
	"encoding/json"
	"go/types"
	"os"
	"sort"

	"golang.org/x/tools/go/ssa"
)

type nameEntry struct {
	Name string `json:"n"`
	Type string `json:"t"`
}

var nameBaseline map[string][]nameEntry

func loadNameBaseline(path string) {
	nameBaseline = map[string][]nameEntry{}
	data, err := os.ReadFile(path)
	if err != nil {
		return
	}
	json.Unmarshal(data, &nameBaseline)
}

// varList: the parameters, named results and local variables of a function in declaration order.
func varList(fn *ssa.Function) []nameEntry {
	fn = bodyOf(fn)
	seen := map[*types.Var]bool{}
	var vars []*types.Var
	add := func(v *types.Var) {
		if v == nil || seen[v] || v.IsField() || v.Name() == "" || v.Name() == "_" {
			return
		}
		seen[v] = true
		vars = append(vars, v)
	}
	for _, p := range fn.Params {
		if v, ok := p.Object().(*types.Var); ok {
			add(v)
		}
	}
	if fn.Signature != nil {
		for i := 0; i < fn.Signature.Results().Len(); i++ {
			add(fn.Signature.Results().At(i))
		}
	}
	var walk func(f *ssa.Function)
	walk = func(f *ssa.Function) {
		for _, b := range f.Blocks {
			for _, in := range b.Instrs {
				if d, ok := in.(*ssa.DebugRef); ok {
					if v, ok := d.Object().(*types.Var); ok {
						add(v)
					}
				}
			}
		}
		for _, af := range f.AnonFuncs {
			walk(af)
		}
	}
	walk(fn)
	sort.SliceStable(vars, func(i, j int) bool { return vars[i].Pos() < vars[j].Pos() })
	qual := func(p *types.Package) string { return p.Name() }
	out := make([]nameEntry, len(vars))
	for i, v := range vars {
		out[i] = nameEntry{v.Name(), types.TypeString(v.Type(), qual)}
	}
	return out
}

func funcKeyOf(fn *ssa.Function) string {
	fn = bodyOf(fn)
	if fn.Object() != nil {
		return fn.Object().(*types.Func).FullName()
	}
	return fn.String()
}

var aliasCache = map[*ssa.Function]map[string]string{}

// aliasesOf: old name -> current name for a function whose variable list differs from the baseline by names only.
func aliasesOf(fn *ssa.Function) map[string]string {
	fn = bodyOf(fn)
	if a, ok := aliasCache[fn]; ok {
		return a
	}
	out := map[string]string{}
	aliasCache[fn] = out
	base, ok := nameBaseline[funcKeyOf(fn)]
	if !ok {
		return out
	}
	cur := varList(fn)
	if len(cur) != len(base) {
		return out
	}
	for i := range cur {
		if cur[i].Type != base[i].Type {
			return out
		}
	}
	curNames := map[string]bool{}
	for _, c := range cur {
		curNames[c.Name] = true
	}
	for i := range cur {
		if cur[i].Name != base[i].Name && !curNames[base[i].Name] {
			out[base[i].Name] = cur[i].Name
		}
	}
	return out
}

// writeNameBaseline: `govc names`.
func writeNameBaseline(prog *ssa.Program, pkgs map[string]*ssa.Package, path string) error {
	out := map[string][]nameEntry{}
	for _, p := range pkgs {
		var fns []*ssa.Function
		for _, m := range p.Members {
			switch x := m.(type) {
			case *ssa.Function:
				fns = append(fns, x)
			case *ssa.Type:
				for _, t := range []types.Type{x.Type(), types.NewPointer(x.Type())} {
					ms := prog.MethodSets.MethodSet(t)
					for i := 0; i < ms.Len(); i++ {
						if f, ok := ms.At(i).Obj().(*types.Func); ok {
							if fn := prog.FuncValue(f.Origin()); fn != nil {
								fns = append(fns, fn)
							}
						}
					}
				}
			}
		}
		for _, fn := range fns {
			if len(bodyOf(fn).Blocks) == 0 || bodyOf(fn).Synthetic != "" {
				continue
			}
			out[funcKeyOf(fn)] = varList(fn)
		}
	}
	data, err := json.MarshalIndent(out, "", " ")
	if err != nil {
		return err
	}
	return os.WriteFile(path, data, 0o644)
}
