package main

import (
	"os"
	"fmt"
	"go/types"
	"sort"
	"strings"

	"golang.org/x/tools/go/ssa"
)

type FuncRun struct {
	Key     string
	Class   string
	Obs     []*Obligation
	Err     error
	Notes   []string
	Paths   int
	Trusted []string
	Callees []string
}

var basicByName = map[string]types.Type{
	"int8": types.Typ[types.Int8], "int16": types.Typ[types.Int16], "int32": types.Typ[types.Int32], "int64": types.Typ[types.Int64],
	"uint8": types.Typ[types.Uint8], "uint16": types.Typ[types.Uint16], "uint32": types.Typ[types.Uint32], "uint64": types.Typ[types.Uint64],
	"int": types.Typ[types.Int], "uint": types.Typ[types.Uint], "uintptr": types.Typ[types.Uintptr],
	"float32": types.Typ[types.Float32], "float64": types.Typ[types.Float64], "string": types.Typ[types.String],
	"complex64": types.Typ[types.Complex64], "complex128": types.Typ[types.Complex128], "bool": types.Typ[types.Bool],
}

// classesFor enumerates the instantiations to verify a generic function for.
func classesFor(fn *ssa.Function, c *Contract, bv bool) []map[string]string {
	tps := fn.TypeParams()
	if tps == nil || tps.Len() == 0 {
		return []map[string]string{{}}
	}
	out := []map[string]string{{}}
	for i := 0; i < tps.Len(); i++ {
		tp := tps.At(i)
		name := tp.Obj().Name()
		var cls []string
		if cs, ok := c.Classes[name]; ok {
			cls = cs
		} else if bv && coreOf(tp) == nil {
			var bs []types.Type
			typeSetBasics(tp.Constraint(), &bs, map[types.Type]bool{})
			seen := map[string]bool{}
			for _, b := range bs {
				n := b.(*types.Basic).Name()
				// int/uint/uintptr are the 64-bit classes on the supported platform
				switch n {
				case "int":
					n = "int64"
				case "uint", "uintptr":
					n = "uint64"
				case "complex64":
					n = "complex128"
				}
				if !seen[n] {
					seen[n] = true
					cls = append(cls, n)
				}
			}
		}
		if len(cls) == 0 {
			continue
		}
		var next []map[string]string
		for _, m := range out {
			for _, cl := range cls {
				nm := map[string]string{}
				for k, v := range m {
					nm[k] = v
				}
				nm[name] = cl
				next = append(next, nm)
			}
		}
		out = next
	}
	return out
}

type Verifier struct {
	prog *ssa.Program
	pkgs map[string]*ssa.Package
	cs   *ContractSet
}

func (v *Verifier) findFunc(key string) *ssa.Function {
	if i := strings.Index(key, "#"); i >= 0 {
		key = key[:i] // contract variant of the same function
	}
	dot := strings.Index(key, ".")
	pkgName, rest := key[:dot], key[dot+1:]
	p := v.pkgs[pkgName]
	if p == nil {
		return nil
	}
	if i := strings.Index(rest, "."); i >= 0 {
		tn, mn := rest[:i], rest[i+1:]
		m := p.Members[tn]
		if m == nil {
			return nil
		}
		t, ok := m.(*ssa.Type)
		if !ok {
			return nil
		}
		nt := t.Type().(*types.Named)
		for _, recv := range []types.Type{nt, types.NewPointer(nt)} {
			ms := types.NewMethodSet(recv)
			for j := 0; j < ms.Len(); j++ {
				if ms.At(j).Obj().Name() == mn {
					if f, ok := ms.At(j).Obj().(*types.Func); ok {
						if fn := v.prog.FuncValue(f); fn != nil {
							return fn
						}
					}
				}
			}
		}
		return nil
	}
	if f, ok := p.Members[rest].(*ssa.Function); ok {
		return f
	}
	return nil
}

// VerifyFunc generates the obligations of one function under one class assignment.
func (v *Verifier) VerifyFunc(key string, c *Contract, class map[string]string) (run *FuncRun) {
	var cl []string
	for k, x := range class {
		cl = append(cl, k+"="+x)
	}
	sort.Strings(cl)
	run = &FuncRun{Key: key, Class: strings.Join(cl, ",")}
	fn := v.findFunc(key)
	if fn == nil {
		run.Err = fmt.Errorf("function %s not found in the loaded packages", key)
		return
	}
	bv := fn.Pkg != nil && fn.Pkg.Pkg.Name() == "typ"
	ctx := NewCtx()
	e := &Engine{prog: v.prog, pkgs: v.pkgs, cs: v.cs, ctx: ctx, lay: NewLayouter(ctx, bv), root: fn, rootC: c, maxPaths: 4000,
		inputs: map[string]Term{}, trustedUsed: map[string]bool{}, callees: map[string]bool{}, subFuns: map[string]bool{}, subCodes: map[string]int{}, adtTypes: map[string]types.Type{}}
	if fn.Pkg != nil {
		switch fn.Pkg.Pkg.Name() {
		case "sets", "sync2", "maps", "chans":
			e.useAllocID = true
		}
	}
	if len(c.Extra["subrefs"]) > 0 {
		e.useAllocID = true
	}
	for _, o := range c.Extra["nla"] {
		if o == "uf" {
			e.nlaUF = true
		}
	}
	e.funcName = key
	if run.Class != "" {
		e.funcName += "[" + run.Class + "]"
	}
	defer func() {
		if r := recover(); r != nil {
			if u, ok := r.(Unsupported); ok {
				run.Err = u
				run.Obs = nil
				return
			}
			// an internal error of the engine on this function (typically code or a contract it was never
			// exercised on): the function is NOT verified; report it instead of crashing the whole check
			run.Err = Unsupported{fmt.Sprintf("internal engine error while generating conditions: %v", r)}
			run.Obs = nil
			if os.Getenv("GOVC_TRACE") != "" {
				panic(r)
			}
		}
	}()
	env := TEnv{}
	tps := fn.TypeParams()
	for i := 0; tps != nil && i < tps.Len(); i++ {
		tp := tps.At(i)
		if cn, ok := class[tp.Obj().Name()]; ok {
			if cn == "iface" {
				env[tp] = types.NewInterfaceType(nil, nil)
				continue
			}
			if cn == "abstract" {
				continue
			}
			bt, ok := basicByName[cn]
			if !ok {
				run.Err = fmt.Errorf("unknown class %s", cn)
				return
			}
			env[tp] = bt
		}
	}
	e.rootEnv = env
	st := NewState()
	e.next0 = ctx.Const("next0", SInt)
	st.next = e.next0
	st.Assume(Lt(IntLit(0), e.next0))
	e.params = map[string]Val{}
	var args []Val
	for _, p := range fn.Params {
		t := resolve(p.Type(), env)
		pv := e.freshVal(p.Name(), t)
		st.Assume(e.wellFormed(pv, e.next0))
		if sig, ok := t.Underlying().(*types.Signature); ok {
			pv.Fn = &FuncVal{Sym: p.Name(), SymSig: sig}
			nilable := false
			for _, n := range c.Extra["nilable"] {
				if n == p.Name() {
					nilable = true
				}
			}
			if !nilable {
				st.Assume(Not(Eq(pv.L[0], IntLit(0))))
			}
		}
		if pt, ok := t.Underlying().(*types.Pointer); ok && e.isOwnedPtr(t) == nil {
			// the pointee, if any, is a well-formed value of its type
			pe := resolve(pt.Elem(), env)
			if _, isStruct := pe.Underlying().(*types.Struct); !isStruct || true {
				func() {
					defer func() { recover() }()
					pointee := e.loadLoc(st, e.locOf(pv))
					st.Assume(e.wellFormed(pointee, e.next0))
					for i, lf := range e.lay.Leaves(pe) {
						n := "*" + p.Name()
						if lf.Path != "" {
							n += "." + lf.Path
						}
						e.inputs[n] = pointee.L[i]
					}
				}()
			}
		}
		ls := e.lay.Leaves(t)
		for i, lf := range ls {
			n := p.Name()
			if lf.Path != "" {
				n += "." + lf.Path
			}
			e.inputs[n] = pv.L[i]
		}
		if _, isChan := coreType(t).(*types.Chan); isChan {
			e.inputs["chlen("+p.Name()+")"] = Sub(e.chTail(st, pv.L[0]), e.chHead(st, pv.L[0]))
			e.inputs["chcap("+p.Name()+")"] = e.chCap(pv.L[0])
			e.inputs["chclosed("+p.Name()+")"] = e.chClosed(st, pv.L[0])
		}
		e.params[p.Name()] = pv
		if len(args) == 0 && fn.Signature.Recv() != nil {
			e.params["this"] = pv
		}
		args = append(args, pv)
	}
	if fn.Signature.Recv() != nil {
		for i, n := range c.ImplAlias {
			if i+1 < len(args) {
				e.params[n] = args[i+1]
			}
		}
	}
	// memory that exists at entry holds well-formed values of its type
	seenWF := map[string]bool{}
	for _, p := range fn.Params {
		e.entryMemoryWF(st, resolve(p.Type(), env), seenWF, 0)
	}
	// free variables do not occur in root functions
	rootFr := &Frame{fn: fn, env: env, regs: map[ssa.Value]Val{}, names: map[string]NameBinding{}, contract: c}
	for i, p := range fn.Params {
		rootFr.names[p.Name()] = NameBinding{V: args[i]}
	}
	e.rootFr = rootFr
	e.entry = st
	// preconditions
	se := &SpecEnv{e: e, st: st, old: st, fr: rootFr, vars: e.params, env: env, pkg: c.Pkg}
	e.bindLets(c, se)
	// owned structures reachable from parameters: one closed chunk each
	for _, p := range fn.Params {
		pv := e.params[p.Name()]
		if od := e.isOwnedPtr(pv.T); od != nil {
			e.addTree(st, od, pv.L[0], e.freshTree(st, od, p.Name()))
		}
	}
	for _, ov := range e.ownedExprs(c.Owns, se) {
		// owned structures reachable through fields (owns n.root)
		if od := e.isOwnedPtr(ov.T); od != nil && st.chunk(ov.L[0]) == nil {
			e.addTree(st, od, ov.L[0], e.freshTree(st, od, "owned"))
		}
	}
	e.assumeTheory(st, c.Pkg, se)
	for _, r := range c.Requires {
		st.Assume(e.evalBool(r.E, se))
	}
	for _, u := range c.Uses {
		st.Assume(e.evalBool(u.E, se))
	}
	e.entryHeld(st)
	e.entry = st.Clone()
	// vacuity guard: the precondition is satisfiable
	cov := &Obligation{Name: e.funcName + "/cover[requires]", Kind: "cover", Func: e.funcName, Assume: append([]Term(nil), st.pc...), Goal: True, Ctx: ctx, Cover: true}
	e.obs = append(e.obs, cov)

	names := resultNames(fn)
	var retPCs [][]Term
	e.execFunction(st, fn, env, args, nil, nil, c, func(st *State, results []Val) {
		e.paths++
		vars := map[string]Val{}
		for k, x := range e.params {
			vars[k] = x
		}
		for i, r := range results {
			if i < len(names) {
				r.T = resolve(fn.Signature.Results().At(i).Type(), env)
				vars[names[i]] = r
				vars[genericResultName(i, len(names))] = r
			}
		}
		se := &SpecEnv{e: e, st: st, old: e.oldOf(st), fr: e.rootFr, vars: vars, env: env, pkg: c.Pkg}
		e.bindLets(c, se)
		e.applyGhostSets(st, c, se)
		e.assumeMapWF(st)
		if c.PanicsIff != nil {
			ose := &SpecEnv{e: e, st: e.entry, old: e.entry, fr: e.rootFr, vars: e.params, env: env, pkg: c.Pkg}
			e.bindLets(c, ose)
			cond := e.evalBool(c.PanicsIff.E, ose)
			e.obligation(st, "panics_iff", "return=>!cond", Not(cond), "a normal return requires the panic condition to be false")
		}
		if c.Mode == "atomic" {
			e.lockBalance(st)
			// sequential specification at the linearization action
			lp := 0
			if l := c.Extra["linpoint"]; len(l) > 0 {
				fmt.Sscanf(l[0], "%d", &lp)
			}
			if want := c.Extra["actions"]; len(want) > 0 {
				n := 0
				fmt.Sscanf(want[0], "%d", &n)
				e.obligation(st, "one-action", "count", mkBoolTerm(len(st.actionLog) == n), fmt.Sprintf("the method performs exactly %d atomic action(s) on every path (this path: %d)", n, len(st.actionLog)))
			}
			if len(c.Ensures) > 0 {
				if lp < len(st.actionLog) {
					a := st.actionLog[lp]
					lse := &SpecEnv{e: e, st: a.Post, old: a.Pre, fr: e.rootFr, vars: vars, env: env, pkg: c.Pkg, cur: st}
					e.bindLets(c, lse)
					for i, en := range c.Ensures {
						g := e.evalBool(en.E, lse)
						lab := en.Label
						if lab == "" {
							lab = fmt.Sprint(i)
						}
						e.obligation(st, "lin", lab, g, "at the linearization action: "+en.Src)
					}
				} else {
					e.obligation(st, "lin", "exists", False, "no linearization action on this path")
				}
			}
			for i, en := range c.ExitEnsures {
				g := e.evalBool(en.E, se)
				lab := en.Label
				if lab == "" {
					lab = fmt.Sprint(i)
				}
				e.obligation(st, "exit_ensures", lab, g, en.Src)
			}
		} else {
			for i, en := range c.Ensures {
				g := e.evalBool(en.E, se)
				lab := en.Label
				if lab == "" {
					lab = fmt.Sprint(i)
				}
				e.obligation(st, "ensures", lab, g, en.Src)
			}
			e.checkFrame(st, "assigns")
		}
		if len(retPCs) < 48 {
			retPCs = append(retPCs, append([]Term(nil), st.pc...))
		}
	})
	if len(retPCs) > 0 {
		// some return path must be feasible (alternatives are tried in turn)
		e.obs = append(e.obs, &Obligation{Name: e.funcName + "/cover[return]", Kind: "cover", Func: e.funcName, Assume: retPCs[0], Alts: retPCs[1:], Goal: True, Ctx: ctx, Cover: true})
	}
	run.Obs = e.obs
	run.Notes = e.notes
	run.Paths = e.paths
	for k := range e.trustedUsed {
		run.Trusted = append(run.Trusted, k)
	}
	sort.Strings(run.Trusted)
	for k := range e.callees {
		run.Callees = append(run.Callees, k)
	}
	sort.Strings(run.Callees)
	return
}

// entryMemoryWF assumes, for every heap reachable from a value of type t, that
// the values stored in it at entry satisfy their types' representation
// invariants (slice headers sane, references allocated).
func (e *Engine) entryMemoryWF(st *State, t types.Type, seen map[string]bool, depth int) {
	if depth > 4 {
		return
	}
	switch x := t.Underlying().(type) {
	case *types.Slice:
		et := resolve(x.Elem(), nil)
		key := "s:" + typeKey(et)
		if seen[key] {
			return
		}
		seen[key] = true
		ls := e.lay.Leaves(et)
		v := Val{T: et, L: make([]Term, len(ls))}
		var pats []string
		for i := range ls {
			h := e.getSliceHeap(st, et, i)
			v.L[i] = T(ls[i].Sort, "(select (select %s q_b) q_k)", h.S)
			pats = append(pats, v.L[i].S)
		}
		f := e.wellFormed(v, e.next0)
		if f.S != "true" {
			st.Assume(T(SBool, "(forall ((q_b Int) (q_k Int)) (! %s :pattern (%s)))", f.S, pats[0]))
		}
		e.entryMemoryWF(st, et, seen, depth+1)
	case *types.Pointer:
		pt := resolve(x.Elem(), nil)
		key := "o:" + typeKey(pt)
		if seen[key] {
			return
		}
		seen[key] = true
		ls := e.lay.Leaves(pt)
		v := Val{T: pt, L: make([]Term, len(ls))}
		for i := range ls {
			h := e.getObjHeap(st, pt, i)
			v.L[i] = T(ls[i].Sort, "(select %s q_r)", h.S)
		}
		f := e.wellFormed(v, e.next0)
		if f.S != "true" && len(ls) > 0 {
			st.Assume(T(SBool, "(forall ((q_r Int)) (! %s :pattern (%s)))", f.S, v.L[0].S))
		}
		e.entryMemoryWF(st, pt, seen, depth+1)
	case *types.Struct:
		for i := 0; i < x.NumFields(); i++ {
			e.entryMemoryWF(st, resolve(x.Field(i).Type(), nil), seen, depth+1)
		}
	case *types.Array:
		e.entryMemoryWF(st, resolve(x.Elem(), nil), seen, depth+1)
	case *types.Chan:
		if !seen["chan"] {
			seen["chan"] = true
			e.chanEntryWF(st)
		}
	}
	if tp, ok := t.(*types.TypeParam); ok {
		if c := coreOf(tp); c != nil {
			e.entryMemoryWF(st, c, seen, depth)
		}
	}
}

func mkBoolTerm(b bool) Term {
	if b {
		return True
	}
	return False
}

// VerifyLemma: a closed formula over integers and booleans, proved for all values of its parameters.
func (v *Verifier) VerifyLemma(ax *Axiom) (run *FuncRun) {
	run = &FuncRun{Key: ax.Pkg + ".lemma." + ax.Name}
	ctx := NewCtx()
	e := &Engine{prog: v.prog, pkgs: v.pkgs, cs: v.cs, ctx: ctx, lay: NewLayouter(ctx, false), maxPaths: 10,
		inputs: map[string]Term{}, trustedUsed: map[string]bool{}, callees: map[string]bool{}, subFuns: map[string]bool{}, subCodes: map[string]int{}, adtTypes: map[string]types.Type{}}
	e.funcName = run.Key
	e.next0 = ctx.Const("next0", SInt)
	defer func() {
		if r := recover(); r != nil {
			if u, ok := r.(Unsupported); ok {
				run.Err = u
				return
			}
			panic(r)
		}
	}()
	st := NewState()
	st.next = e.next0
	fr := &Frame{regs: map[ssa.Value]Val{}, names: map[string]NameBinding{}}
	vars := map[string]Val{}
	// lemmas may quantify over an abstract element type T
	tp := types.NewTypeParam(types.NewTypeName(0, nil, "T", nil), types.NewInterfaceType(nil, nil))
	se := &SpecEnv{e: e, st: st, old: st, fr: fr, vars: vars, pkg: ax.Pkg, tnames: map[string]types.Type{"T": tp}}
	e.rootC = &Contract{Pkg: ax.Pkg}
	e.rootFr = fr
	e.lemmaTNames = se.tnames
	for _, p := range ax.Params {
		t := e.specType(p.Type, se)
		pv := e.freshVal(p.Name, t)
		vars[p.Name] = pv
		if len(pv.L) == 1 {
			e.inputs[p.Name] = pv.L[0]
		}
	}
	e.assumeTheory(st, ax.Pkg, se)
	g := e.evalBool(ax.Body, se)
	run.Obs = []*Obligation{{Name: run.Key + "/lemma", Kind: "lemma", Func: run.Key, Assume: st.pc, Goal: g, Ctx: ctx, Inputs: e.inputs, Note: ax.Body.Src}}
	run.Paths = 1
	return
}
