package main

// Contract files and the specification expression language.
//
// Contracts live in comment-only, build-tag guarded files in /repo
// (<pkg>/zz_contracts_verif.go) inside /*@ ... @*/ blocks.

import (
	"fmt"
	"os"
	"path/filepath"
	"strconv"
	"strings"
)

type Expr struct {
	Op   string // ident int bool nil call index slice field unary binary forall exists old
	Name string // identifier / operator / field / function name
	Int  int64
	Args []*Expr
	Vars []BoundVar
	Trigs [][]*Expr // alternative multi-patterns
	Src  string
}

type BoundVar struct {
	Name string
	Type string // "" = int
}

func (e *Expr) String() string {
	if e == nil {
		return "<nil>"
	}
	switch e.Op {
	case "ident":
		return e.Name
	case "int":
		return fmt.Sprint(e.Int)
	case "bool":
		return e.Name
	case "nil":
		return "nil"
	case "call":
		var as []string
		for _, a := range e.Args {
			as = append(as, a.String())
		}
		return e.Name + "(" + strings.Join(as, ", ") + ")"
	case "index":
		return e.Args[0].String() + "[" + e.Args[1].String() + "]"
	case "slice":
		s := e.Args[0].String() + "["
		if e.Args[1] != nil {
			s += e.Args[1].String()
		}
		s += ":"
		if e.Args[2] != nil {
			s += e.Args[2].String()
		}
		return s + "]"
	case "field":
		return e.Args[0].String() + "." + e.Name
	case "unary":
		return e.Name + e.Args[0].String()
	case "binary":
		return "(" + e.Args[0].String() + " " + e.Name + " " + e.Args[1].String() + ")"
	case "forall", "exists":
		var vs []string
		for _, v := range e.Vars {
			if v.Type != "" {
				vs = append(vs, v.Name+" "+v.Type)
			} else {
				vs = append(vs, v.Name)
			}
		}
		return "(" + e.Op + " " + strings.Join(vs, ", ") + " :: " + e.Args[0].String() + ")"
	case "old":
		return "old(" + e.Args[0].String() + ")"
	}
	return "?" + e.Op
}

// ---------------------------------------------------------------------------
// lexer

type tok struct {
	kind string // id int op eof
	text string
}

func lexSpec(s string) ([]tok, error) {
	var out []tok
	i := 0
	ops := []string{"<==>", "==>", "::", "==", "!=", "<=", ">=", "&&", "||", "(", ")", "[", "]", "{", "}", ",", ".", ":", "+", "-", "*", "/", "%", "<", ">", "!", "#", "&"}
	for i < len(s) {
		c := s[i]
		if c == ' ' || c == '\t' || c == '\n' || c == '\r' {
			i++
			continue
		}
		if c >= '0' && c <= '9' {
			j := i
			for j < len(s) && ((s[j] >= '0' && s[j] <= '9') || s[j] == '_') {
				j++
			}
			out = append(out, tok{"int", strings.ReplaceAll(s[i:j], "_", "")})
			i = j
			continue
		}
		if c == '_' || (c >= 'a' && c <= 'z') || (c >= 'A' && c <= 'Z') {
			j := i
			for j < len(s) && (s[j] == '_' || (s[j] >= 'a' && s[j] <= 'z') || (s[j] >= 'A' && s[j] <= 'Z') || (s[j] >= '0' && s[j] <= '9')) {
				j++
			}
			out = append(out, tok{"id", s[i:j]})
			i = j
			continue
		}
		matched := false
		for _, op := range ops {
			if strings.HasPrefix(s[i:], op) {
				out = append(out, tok{"op", op})
				i += len(op)
				matched = true
				break
			}
		}
		if !matched {
			return nil, fmt.Errorf("spec lexer: unexpected %q in %q", string(c), s)
		}
	}
	out = append(out, tok{"eof", ""})
	return out, nil
}

type specParser struct {
	toks []tok
	pos  int
	src  string
}

func ParseSpecExpr(s string) (*Expr, error) {
	toks, err := lexSpec(s)
	if err != nil {
		return nil, err
	}
	p := &specParser{toks: toks, src: s}
	var e *Expr
	func() {
		defer func() {
			if r := recover(); r != nil {
				if pe, ok := r.(parseErr); ok {
					err = fmt.Errorf("%s in spec %q", string(pe), s)
					return
				}
				panic(r)
			}
		}()
		e = p.parseExpr()
		if p.peek().kind != "eof" {
			p.fail("trailing tokens at %q", p.peek().text)
		}
	}()
	if e != nil {
		e.Src = s
	}
	return e, err
}

type parseErr string

func (p *specParser) fail(f string, a ...interface{}) { panic(parseErr(fmt.Sprintf(f, a...))) }
func (p *specParser) peek() tok                         { return p.toks[p.pos] }
func (p *specParser) next() tok                         { t := p.toks[p.pos]; p.pos++; return t }
func (p *specParser) isOp(s string) bool {
	t := p.peek()
	return t.kind == "op" && t.text == s
}
func (p *specParser) accept(s string) bool {
	if p.isOp(s) {
		p.pos++
		return true
	}
	return false
}
func (p *specParser) expect(s string) {
	if !p.accept(s) {
		p.fail("expected %q, found %q", s, p.peek().text)
	}
}

func (p *specParser) parseExpr() *Expr {
	t := p.peek()
	if t.kind == "id" && (t.text == "forall" || t.text == "exists") {
		p.next()
		e := &Expr{Op: t.text}
		for {
			n := p.next()
			if n.kind != "id" {
				p.fail("expected bound variable, found %q", n.text)
			}
			bv := BoundVar{Name: n.text}
			if p.peek().kind == "id" {
				bv.Type = p.next().text
			}
			e.Vars = append(e.Vars, bv)
			if !p.accept(",") {
				break
			}
		}
		// a type given for the last variable applies to preceding untyped ones
		for i := len(e.Vars) - 2; i >= 0; i-- {
			if e.Vars[i].Type == "" {
				e.Vars[i].Type = e.Vars[i+1].Type
			}
		}
		p.expect("::")
		for p.accept("{") {
			var grp []*Expr
			for {
				grp = append(grp, p.parseExpr())
				if !p.accept(",") {
					break
				}
			}
			p.expect("}")
			e.Trigs = append(e.Trigs, grp)
		}
		e.Args = []*Expr{p.parseExpr()}
		return e
	}
	return p.parseIff()
}

func (p *specParser) parseIff() *Expr {
	l := p.parseImpl()
	for p.accept("<==>") {
		r := p.parseImpl()
		l = &Expr{Op: "binary", Name: "<==>", Args: []*Expr{l, r}}
	}
	return l
}

func (p *specParser) parseImpl() *Expr {
	l := p.parseOr()
	if p.accept("==>") {
		// right associative; quantifier allowed on the right
		var r *Expr
		t := p.peek()
		if t.kind == "id" && (t.text == "forall" || t.text == "exists") {
			r = p.parseExpr()
		} else {
			r = p.parseImpl()
		}
		return &Expr{Op: "binary", Name: "==>", Args: []*Expr{l, r}}
	}
	return l
}

func (p *specParser) parseOr() *Expr {
	l := p.parseAnd()
	for p.accept("||") {
		r := p.parseAnd()
		l = &Expr{Op: "binary", Name: "||", Args: []*Expr{l, r}}
	}
	return l
}

func (p *specParser) parseAnd() *Expr {
	l := p.parseCmp()
	for p.accept("&&") {
		var r *Expr
		t := p.peek()
		if t.kind == "id" && (t.text == "forall" || t.text == "exists") {
			r = p.parseExpr()
		} else {
			r = p.parseCmp()
		}
		l = &Expr{Op: "binary", Name: "&&", Args: []*Expr{l, r}}
	}
	return l
}

func (p *specParser) parseCmp() *Expr {
	l := p.parseAdd()
	for {
		t := p.peek()
		if t.kind == "op" && (t.text == "==" || t.text == "!=" || t.text == "<" || t.text == "<=" || t.text == ">" || t.text == ">=") {
			p.next()
			r := p.parseAdd()
			l = &Expr{Op: "binary", Name: t.text, Args: []*Expr{l, r}}
			continue
		}
		return l
	}
}

func (p *specParser) parseAdd() *Expr {
	l := p.parseMul()
	for {
		t := p.peek()
		if t.kind == "op" && (t.text == "+" || t.text == "-") {
			p.next()
			r := p.parseMul()
			l = &Expr{Op: "binary", Name: t.text, Args: []*Expr{l, r}}
			continue
		}
		return l
	}
}

func (p *specParser) parseMul() *Expr {
	l := p.parseUnary()
	for {
		t := p.peek()
		if t.kind == "op" && (t.text == "*" || t.text == "/" || t.text == "%") {
			p.next()
			r := p.parseUnary()
			l = &Expr{Op: "binary", Name: t.text, Args: []*Expr{l, r}}
			continue
		}
		return l
	}
}

func (p *specParser) parseUnary() *Expr {
	t := p.peek()
	if t.kind == "op" && (t.text == "!" || t.text == "-" || t.text == "*" || t.text == "&") {
		p.next()
		x := p.parseUnary()
		return &Expr{Op: "unary", Name: t.text, Args: []*Expr{x}}
	}
	return p.parsePostfix()
}

func (p *specParser) parsePostfix() *Expr {
	e := p.parsePrimary()
	for {
		switch {
		case p.accept("."):
			n := p.next()
			if n.kind != "id" {
				p.fail("expected field name after '.'")
			}
			// package-qualified or method-style call: a.f(args)
			if p.isOp("(") && e.Op == "ident" {
				p.next()
				call := &Expr{Op: "call", Name: e.Name + "." + n.text}
				if !p.accept(")") {
					for {
						call.Args = append(call.Args, p.parseExpr())
						if !p.accept(",") {
							break
						}
					}
					p.expect(")")
				}
				e = call
			} else {
				e = &Expr{Op: "field", Name: n.text, Args: []*Expr{e}}
			}
		case p.accept("["):
			var lo, hi *Expr
			if p.isOp(":") {
				p.next()
				if !p.isOp("]") {
					hi = p.parseExpr()
				}
				p.expect("]")
				e = &Expr{Op: "slice", Args: []*Expr{e, nil, hi}}
				continue
			}
			lo = p.parseExpr()
			if p.accept(":") {
				if !p.isOp("]") {
					hi = p.parseExpr()
				}
				p.expect("]")
				e = &Expr{Op: "slice", Args: []*Expr{e, lo, hi}}
				continue
			}
			p.expect("]")
			e = &Expr{Op: "index", Args: []*Expr{e, lo}}
		default:
			return e
		}
	}
}

func (p *specParser) parsePrimary() *Expr {
	t := p.next()
	switch t.kind {
	case "int":
		n, err := strconv.ParseInt(t.text, 10, 64)
		if err != nil {
			// allow up to uint64
			u, err2 := strconv.ParseUint(t.text, 10, 64)
			if err2 != nil {
				p.fail("bad integer %q", t.text)
			}
			return &Expr{Op: "int", Int: int64(u), Name: "u64"}
		}
		return &Expr{Op: "int", Int: n}
	case "id":
		switch t.text {
		case "true", "false":
			return &Expr{Op: "bool", Name: t.text}
		case "nil":
			return &Expr{Op: "nil"}
		}
		if p.isOp("(") {
			p.next()
			call := &Expr{Op: "call", Name: t.text}
			if !p.accept(")") {
				for {
					call.Args = append(call.Args, p.parseExpr())
					if !p.accept(",") {
						break
					}
				}
				p.expect(")")
			}
			if t.text == "old" {
				if len(call.Args) != 1 {
					p.fail("old takes one argument")
				}
				return &Expr{Op: "old", Args: call.Args}
			}
			return call
		}
		return &Expr{Op: "ident", Name: t.text}
	case "op":
		if t.text == "(" {
			e := p.parseExpr()
			p.expect(")")
			return e
		}
		if t.text == "#" {
			n := p.next()
			if n.kind != "id" {
				p.fail("expected name after #")
			}
			return &Expr{Op: "ident", Name: "#" + n.text}
		}
	}
	p.fail("unexpected token %q", t.text)
	return nil
}

// ---------------------------------------------------------------------------
// contract files

type Clause struct {
	Label string
	E     *Expr
	Src   string
}

type LoopSpec struct {
	Owns    []Clause
	Inv     []Clause
	Hints   []Clause // "use" clauses: lemma instantiations assumed at the header after proof elsewhere
	Unreach bool
	Decr    []Clause // loop variant (lexicographic when more than one): termination obligation at every back edge
}

type Contract struct {
	Key       string // "Func" or "Recv.Func"
	Pkg       string
	Props     []string
	Requires  []Clause
	Ensures   []Clause
	Rely []Clause
	Uses []Clause // function-level `use e`: instances of axioms/lemmas assumed at entry (hints for paths that meet no loop)
	Decr []Clause // `decreases e`: measure of a (directly) recursive function, strictly smaller and bounded below at every recursive call
	LockInv []Clause // invariant of the state protected by the object's lock (`opt lock`)
	GhostSets []GhostSet // ghost assignments performed at the function's exit (before its ensures are checked)
	ExitEnsures []Clause // atomic mode: clauses about the action log, evaluated at exit
	PanicsIff *Clause
	OnPanic   []Clause
	Assigns   []string
	HasAssign bool
	Loops     map[int]*LoopSpec
	RangeCalls map[int]*LoopSpec
	Implements string
	Owns       []string
	Gives      []string
	ParamNames []string // declared parameter names (interface method contracts)
	ImplAlias  []string // parameter names of the implemented interface method, positionally
	ThisAlias  bool // `this` in clauses denotes the receiver
	Inline    bool
	Trusted   bool   // contract assumed, body not verified (listed in assumptions)
	TrustWhy  string
	Classes   map[string][]string // type parameter -> classes
	Pure      bool
	Callbacks map[string]string // callback parameter -> "pure" (default) etc.
	Ghost     []Clause
	Lets      []LetDef
	Mode      string
	Extra     map[string][]string
	File      string
	Line      int
}

type LetDef struct {
	Name string
	E    *Expr
}

type SpecFunc struct {
	Name   string
	Params []BoundVar
	Ret    string
	Body   *Expr // nil = uninterpreted
	Pkg    string
}

type Axiom struct {
	Name   string
	Params []BoundVar
	Body   *Expr
	Pkg    string
	Auto   bool // asserted globally as a quantified axiom (with triggers if given)
	Prop   string
}

type TypeInv struct {
	Type string
	Recv string
	Body *Expr
	Pkg  string
}

// GhostSet: `ghostset name[row] v = body` (one row of a two-index ghost variable) or `ghostset name v = body`
// (a whole one-index ghost variable): the new content as a function of the index v; old(...) is the entry state.
type GhostSet struct {
	Name string
	Row  *Expr
	Var  string
	Body *Expr
	Src  string
}

type Pair struct{ Prop, Fork, Orig string }

type BoundedCheck struct {
	Prop, Pkg, Desc string
	Quick, Thorough int
}

type GhostVar struct {
	Name string
	Dims int
	Type string
	Pkg  string
}

type ContractSet struct {
	Pairs     []Pair
	Bounded   []BoundedCheck
	ADTs      map[string]*ADTDecl
	Owned     map[string]*OwnedDecl
	Lemmas    []*Axiom
	GhostVars map[string]*GhostVar
	Funcs     map[string]*Contract // key: pkgname + "." + Key
	SpecFuncs map[string]*SpecFunc
	Axioms    map[string]*Axiom
	TypeInvs  map[string]*TypeInv
	Order     []string
	Files     []string
	Scan      []string // assumption scan lines
}

func NewContractSet() *ContractSet {
	return &ContractSet{ADTs: map[string]*ADTDecl{}, Owned: map[string]*OwnedDecl{}, GhostVars: map[string]*GhostVar{}, Funcs: map[string]*Contract{}, SpecFuncs: map[string]*SpecFunc{}, Axioms: map[string]*Axiom{}, TypeInvs: map[string]*TypeInv{}}
}

var clauseKeywords = map[string]bool{
	"func": true, "requires": true, "ensures": true, "exit_ensures": true, "rely": true, "lockinv": true, "ghostset": true, "panics_iff": true, "decreases": true, "use": true, "on_panic": true,
	"assigns": true, "loop": true, "inline": true, "trusted": true, "classes": true, "pure": true,
	"property": true, "spec": true, "axiom": true, "lemma": true, "type": true, "let": true, "mode": true,
	"opt": true, "ghost": true, "callback": true, "pair": true, "ghostvar": true, "rangecall": true, "implements": true, "bounded": true, "adt": true, "owned": true, "owns": true, "gives": true,
}

// LoadContracts parses every zz_contracts_verif.go below root.
func LoadContracts(root string) (*ContractSet, error) {
	cs := NewContractSet()
	var files []string
	filepath.Walk(root, func(path string, info os.FileInfo, err error) error {
		if err != nil {
			return nil
		}
		if info.IsDir() && (info.Name() == ".git" || info.Name() == "vendor") {
			return filepath.SkipDir
		}
		if !info.IsDir() && strings.HasPrefix(info.Name(), "zz_contracts") && strings.HasSuffix(info.Name(), "_verif.go") {
			files = append(files, path)
		}
		return nil
	})
	for _, f := range files {
		if err := cs.parseFile(f); err != nil {
			return nil, err
		}
	}
	cs.Files = files
	for _, k := range cs.Order {
		c := cs.Funcs[k]
		if c.Implements == "" {
			continue
		}
		ic, ok := cs.Funcs[c.Implements]
		if !ok {
			return nil, fmt.Errorf("%s: implements %s: no such interface method contract", k, c.Implements)
		}
		c.Requires = append(append([]Clause(nil), ic.Requires...), c.Requires...)
		c.Ensures = append(append([]Clause(nil), ic.Ensures...), c.Ensures...)
		c.Assigns = append(append([]string(nil), ic.Assigns...), c.Assigns...)
		c.HasAssign = c.HasAssign || ic.HasAssign
		c.ThisAlias = true
		c.ImplAlias = ic.ParamNames
	}
	// `use` clauses are assumed without proof: they may only instantiate axioms and lemmas (possibly under a
	// universal quantifier, possibly guarded or conjoined) - never state a fact of their own.
	for _, k := range cs.Order {
		c := cs.Funcs[k]
		var all []Clause
		all = append(all, c.Uses...)
		for _, ls := range c.Loops {
			all = append(all, ls.Hints...)
		}
		for _, ls := range c.RangeCalls {
			all = append(all, ls.Hints...)
		}
		for _, u := range all {
			if !cs.hintOK(u.E) {
				return nil, fmt.Errorf("%s: `use %s` is not an instantiation of an axiom or lemma", k, u.Src)
			}
		}
	}
	return cs, nil
}

func (cs *ContractSet) hintOK(e *Expr) bool {
	if e == nil {
		return false
	}
	switch e.Op {
	case "call":
		if _, ok := cs.Axioms[e.Name]; ok {
			return true
		}
		for _, l := range cs.Lemmas {
			if l.Name == e.Name {
				return true
			}
		}
		return false
	case "forall":
		return len(e.Args) > 0 && cs.hintOK(e.Args[len(e.Args)-1])
	case "binary":
		switch e.Name {
		case "&&":
			return cs.hintOK(e.Args[0]) && cs.hintOK(e.Args[1])
		case "==>":
			return cs.hintOK(e.Args[1]) // a guarded instance is weaker than the instance
		}
	}
	return false
}

func (cs *ContractSet) parseFile(path string) error {
	data, err := os.ReadFile(path)
	if err != nil {
		return err
	}
	src := string(data)
	pkg := ""
	for _, ln := range strings.Split(src, "\n") {
		if strings.HasPrefix(ln, "package ") {
			pkg = strings.TrimSpace(strings.TrimPrefix(ln, "package "))
			break
		}
	}
	if pkg == "" {
		return fmt.Errorf("%s: no package clause", path)
	}
	// collect logical lines inside /*@ @*/ blocks
	type lline struct {
		text string
		line int
	}
	var lines []lline
	in := false
	for i, ln := range strings.Split(src, "\n") {
		t := strings.TrimSpace(ln)
		if strings.HasPrefix(t, "/*@") {
			in = true
			t = strings.TrimSpace(strings.TrimPrefix(t, "/*@"))
		}
		if !in {
			continue
		}
		if strings.HasSuffix(t, "@*/") {
			t = strings.TrimSpace(strings.TrimSuffix(t, "@*/"))
			in = false
		}
		if idx := strings.Index(t, "//"); idx >= 0 {
			t = strings.TrimSpace(t[:idx])
		}
		if t == "" {
			continue
		}
		first := t
		if j := strings.IndexAny(t, " \t("); j >= 0 {
			first = t[:j]
		}
		if j := strings.Index(first, "["); j > 0 {
			first = first[:j]
		}
		if clauseKeywords[first] || len(lines) == 0 {
			lines = append(lines, lline{t, i + 1})
		} else {
			lines[len(lines)-1].text += " " + t
		}
	}
	var cur *Contract
	for _, l := range lines {
		kw, rest := splitWord(l.text)
		fail := func(f string, a ...interface{}) error {
			return fmt.Errorf("%s:%d: %s", path, l.line, fmt.Sprintf(f, a...))
		}
		parse := func(s string) (*Expr, error) {
			e, err := ParseSpecExpr(s)
			if err != nil {
				return nil, fail("%v", err)
			}
			return e, nil
		}
		// optional label:  ensures[name] expr
		label := ""
		if strings.HasPrefix(rest, "[") && (kw == "ensures" || kw == "requires" || kw == "on_panic" || kw == "exit_ensures") {
			if j := strings.Index(rest, "]"); j > 0 {
				label = rest[1:j]
				rest = strings.TrimSpace(rest[j+1:])
			}
		}
		if strings.HasPrefix(kw, "ensures[") || strings.HasPrefix(kw, "requires[") || strings.HasPrefix(kw, "on_panic[") || strings.HasPrefix(kw, "exit_ensures[") {
			j := strings.Index(kw, "[")
			label = strings.TrimSuffix(kw[j+1:], "]")
			kw = kw[:j]
		}
		switch kw {
		case "func":
			key := strings.TrimSpace(rest)
			var pnames []string
			if j := strings.Index(key, "("); j >= 0 {
				inner := strings.TrimSuffix(strings.TrimSpace(key[j+1:]), ")")
				for _, p := range strings.Split(inner, ",") {
					if p = strings.TrimSpace(p); p != "" {
						pnames = append(pnames, p)
					}
				}
				key = strings.TrimSpace(key[:j])
			}
			cur = &Contract{ParamNames: pnames, Key: key, Pkg: pkg, Loops: map[int]*LoopSpec{}, Classes: map[string][]string{}, Callbacks: map[string]string{}, Extra: map[string][]string{}, File: path, Line: l.line}
			full := pkg + "." + key
			if _, dup := cs.Funcs[full]; dup {
				return fail("duplicate contract for %s", full)
			}
			cs.Funcs[full] = cur
			cs.Order = append(cs.Order, full)
		case "property":
			if cur == nil {
				return fail("property outside func")
			}
			cur.Props = append(cur.Props, strings.Fields(strings.ReplaceAll(rest, ",", " "))...)
		case "rely":
			// rely <expr>: an invariant of the shared abstract state that every goroutine maintains: assumed after
			// every interference, and re-established (obligation `guarantee`) by each of this method's own actions
			if cur == nil {
				return fail("rely outside func")
			}
			e, err := parse(rest)
			if err != nil {
				return err
			}
			cur.Rely = append(cur.Rely, Clause{E: e, Src: rest})
		case "ghostset":
			if cur == nil {
				return fail("ghostset outside func")
			}
			eq := strings.Index(rest, " = ")
			if eq < 0 {
				return fail("ghostset name[row] var = body")
			}
			lhs, body := strings.TrimSpace(rest[:eq]), strings.TrimSpace(rest[eq+3:])
			f := strings.Fields(lhs)
			if len(f) != 2 {
				return fail("ghostset name[row] var = body")
			}
			gs := GhostSet{Var: f[1], Src: rest}
			if i := strings.Index(f[0], "["); i >= 0 {
				gs.Name = f[0][:i]
				re, err := parse(strings.TrimSuffix(f[0][i+1:], "]"))
				if err != nil {
					return err
				}
				gs.Row = re
			} else {
				gs.Name = f[0]
			}
			be, err := parse(body)
			if err != nil {
				return err
			}
			gs.Body = be
			cur.GhostSets = append(cur.GhostSets, gs)
		case "lockinv":
			// lockinv <expr>: invariant of the state guarded by the object's lock: assumed when the lock is acquired
			// (or held on entry), proved when a write lock is released
			if cur == nil {
				return fail("lockinv outside func")
			}
			e, err := parse(rest)
			if err != nil {
				return err
			}
			cur.LockInv = append(cur.LockInv, Clause{E: e, Src: rest})
		case "exit_ensures":
			if cur == nil {
				return fail("exit_ensures outside func")
			}
			e, err := parse(rest)
			if err != nil {
				return err
			}
			cur.ExitEnsures = append(cur.ExitEnsures, Clause{Label: label, E: e, Src: rest})
		case "requires", "ensures", "on_panic":
			if cur == nil {
				return fail("%s outside func", kw)
			}
			if kw == "on_panic" {
				r2 := strings.TrimSpace(rest)
				if strings.HasPrefix(r2, "ensures") {
					rest = strings.TrimSpace(strings.TrimPrefix(r2, "ensures"))
				}
			}
			e, err := parse(rest)
			if err != nil {
				return err
			}
			c := Clause{Label: label, E: e, Src: rest}
			switch kw {
			case "requires":
				cur.Requires = append(cur.Requires, c)
			case "ensures":
				cur.Ensures = append(cur.Ensures, c)
			case "on_panic":
				cur.OnPanic = append(cur.OnPanic, c)
			}
		case "use":
			if cur == nil {
				return fail("use outside func")
			}
			e, err := parse(rest)
			if err != nil {
				return err
			}
			cur.Uses = append(cur.Uses, Clause{Label: label, E: e, Src: rest})
		case "decreases":
			if cur == nil {
				return fail("decreases outside func")
			}
			e, err := parse(rest)
			if err != nil {
				return err
			}
			cur.Decr = append(cur.Decr, Clause{Label: label, E: e, Src: rest})
		case "panics_iff":
			if cur == nil {
				return fail("panics_iff outside func")
			}
			e, err := parse(rest)
			if err != nil {
				return err
			}
			cur.PanicsIff = &Clause{E: e, Src: rest}
		case "assigns":
			if cur == nil {
				return fail("assigns outside func")
			}
			cur.HasAssign = true
			for _, a := range splitTop(rest, ',') {
				a = strings.TrimSpace(a)
				if a != "" && a != "nothing" {
					cur.Assigns = append(cur.Assigns, a)
				}
			}
		case "loop":
			if cur == nil {
				return fail("loop outside func")
			}
			nstr, r2 := splitWord(rest)
			n, err := strconv.Atoi(nstr)
			if err != nil {
				return fail("loop ordinal: %v", err)
			}
			ls := cur.Loops[n]
			if ls == nil {
				ls = &LoopSpec{}
				cur.Loops[n] = ls
			}
			k2, r3 := splitWord(r2)
			lab := ""
			if j := strings.Index(k2, "["); j > 0 {
				lab = strings.TrimSuffix(k2[j+1:], "]")
				k2 = k2[:j]
			}
			switch k2 {
			case "invariant":
				e, err := parse(r3)
				if err != nil {
					return err
				}
				ls.Inv = append(ls.Inv, Clause{Label: lab, E: e, Src: r3})
			case "use":
				e, err := parse(r3)
				if err != nil {
					return err
				}
				ls.Hints = append(ls.Hints, Clause{E: e, Src: r3})
			case "decreases":
				e, err := parse(r3)
				if err != nil {
					return err
				}
				ls.Decr = append(ls.Decr, Clause{Label: lab, E: e, Src: r3})
			case "unreachable_backedge":
				ls.Unreach = true
				cs.Scan = append(cs.Scan, fmt.Sprintf("%s.%s: loop %d unreachable_backedge (proved: obligation backedge-unreachable)", pkg, cur.Key, n))
			default:
				return fail("unknown loop clause %q", k2)
			}
		case "rangecall":
			// rangecall N invariant expr : invariant of the spec loop standing for the N-th Range(...) call
			nstr, r2 := splitWord(rest)
			n, err := strconv.Atoi(nstr)
			if err != nil {
				return fail("rangecall ordinal: %v", err)
			}
			k2, r3 := splitWord(r2)
			lab := ""
			if j := strings.Index(k2, "["); j > 0 {
				lab = strings.TrimSuffix(k2[j+1:], "]")
				k2 = k2[:j]
			}
			if cur.RangeCalls == nil {
				cur.RangeCalls = map[int]*LoopSpec{}
			}
			ls := cur.RangeCalls[n]
			if ls == nil {
				ls = &LoopSpec{}
				cur.RangeCalls[n] = ls
			}
			e, err := parse(r3)
			if err != nil {
				return err
			}
			switch k2 {
			case "invariant":
				ls.Inv = append(ls.Inv, Clause{Label: lab, E: e, Src: r3})
			case "use":
				ls.Hints = append(ls.Hints, Clause{E: e, Src: r3})
			case "owns":
				// the structure below this pointer is owned across iterations (part of the invariant)
				ls.Owns = append(ls.Owns, Clause{E: e, Src: r3})
			default:
				return fail("unknown rangecall clause %q", k2)
			}
		case "implements":
			// implements <pkg.Iface.Method> : the interface method's requires/ensures/assigns apply, with `this` = the receiver
			cur.Implements = strings.TrimSpace(rest)
		case "inline":
			cur.Inline = true
		case "trusted":
			cur.Trusted = true
			cur.TrustWhy = rest
			cs.Scan = append(cs.Scan, fmt.Sprintf("%s.%s: contract TRUSTED, body not verified: %s", pkg, cur.Key, rest))
		case "pure":
			cur.Pure = true
		case "mode":
			cur.Mode = strings.TrimSpace(rest)
		case "opt":
			k, v := splitWord(rest)
			cur.Extra[k] = append(cur.Extra[k], v)
			switch k {
			case "lockhavoc":
				cs.Scan = append(cs.Scan, fmt.Sprintf("%s.%s: partial interference model: other goroutines act only at the acquisition of the mutex (everything is forgotten there, the `rely` is ASSUMED of them); interference between other atomic steps is not modelled", pkg, cur.Key))
			case "cellhavoc":
				cs.Scan = append(cs.Scan, fmt.Sprintf("%s.%s: partial interference model: other goroutines act on the atomic cell before each atomic pointer operation of this function (subject to the ASSUMED `rely`); nothing interferes between its last atomic step and its return", pkg, cur.Key))
			}
		case "callback":
			k, v := splitWord(rest)
			cur.Callbacks[k] = v
		case "classes":
			// classes T: int8 int16 ...
			j := strings.Index(rest, ":")
			if j < 0 {
				return fail("classes T: a b c")
			}
			cur.Classes[strings.TrimSpace(rest[:j])] = strings.Fields(strings.ReplaceAll(rest[j+1:], ",", " "))
		case "let":
			j := strings.Index(rest, "=")
			if j < 0 {
				return fail("let name = expr")
			}
			e, err := parse(rest[j+1:])
			if err != nil {
				return err
			}
			cur.Lets = append(cur.Lets, LetDef{strings.TrimSpace(rest[:j]), e})
		case "ghost":
			e, err := parse(rest)
			if err != nil {
				return err
			}
			cur.Ghost = append(cur.Ghost, Clause{E: e, Src: rest})
		case "spec":
			// spec name(a T, b int) R = body     |  spec name(a T) R
			sf, err := parseSpecFunc(rest)
			if err != nil {
				return fail("%v", err)
			}
			sf.Pkg = pkg
			cs.SpecFuncs[sf.Name] = sf
		case "lemma":
			// lemma <property> name(a int, b bool): body   -- a closed formula proved on its own (no code involved)
			prop, r2 := splitWord(rest)
			ax, err := parseAxiom(r2)
			if err != nil {
				return fail("%v", err)
			}
			ax.Pkg = pkg
			ax.Prop = prop
			cs.Lemmas = append(cs.Lemmas, ax)
		case "axiom":
			// axiom name(a T, k int): body
			ax, err := parseAxiom(rest)
			if err != nil {
				return fail("%v", err)
			}
			ax.Pkg = pkg
			cs.Axioms[ax.Name] = ax
			if kw == "axiom" {
				cs.Scan = append(cs.Scan, fmt.Sprintf("%s: axiom %s (definitional equation of a spec function)", pkg, ax.Name))
			}
		case "adt":
			// adt Tree = Leaf | Node(l Tree, v T, h int, r Tree)
			j := strings.Index(rest, "=")
			if j < 0 {
				return fail("adt Name = Ctor | Ctor(fields)")
			}
			d := &ADTDecl{Name: strings.TrimSpace(rest[:j]), Pkg: pkg}
			for _, alt := range strings.Split(rest[j+1:], "|") {
				alt = strings.TrimSpace(alt)
				c := ADTCtor{Name: alt}
				if k := strings.Index(alt, "("); k >= 0 {
					c.Name = strings.TrimSpace(alt[:k])
					ps, err := parseParams(strings.TrimSuffix(alt[k+1:], ")"))
					if err != nil {
						return fail("%v", err)
					}
					c.Fields = ps
				}
				d.Ctors = append(d.Ctors, c)
			}
			cs.ADTs[d.Name] = d
		case "owned":
			// owned node view Tree nil Leaf ctor Node(left, value, height, right)
			f := strings.Fields(strings.NewReplacer("(", " ", ")", " ", ",", " ").Replace(rest))
			if len(f) < 8 || f[1] != "view" || f[3] != "nil" || f[5] != "ctor" {
				return fail("owned <struct> view <adt> nil <ctor> ctor <ctor>(<fields...>)")
			}
			cs.Owned[pkg+"."+f[0]] = &OwnedDecl{Type: f[0], ADT: f[2], Nil: f[4], Ctor: f[6], Fields: f[7:], Pkg: pkg}
		case "owns":
			// owns <param>... : the structures below these pointers are consumed from the caller at a call
			if cur == nil {
				return fail("owns outside func")
			}
			cur.Owns = append(cur.Owns, strings.Fields(strings.ReplaceAll(rest, ",", " "))...)
		case "gives":
			// gives <result>... : ownership of the structures below these results passes to the caller;
			// gives node(<result>): only the single node (its children are given or owned separately)
			if cur == nil {
				return fail("gives outside func")
			}
			cur.Gives = append(cur.Gives, strings.Fields(strings.ReplaceAll(rest, ",", " "))...)
		case "bounded":
			// bounded <property> <quick bound> <thorough bound> <description...> : a bounded stand-in run from the package's replay file
			f := strings.Fields(rest)
			if len(f) < 4 {
				return fail("bounded <property> <quick> <thorough> <description>")
			}
			q, _ := strconv.Atoi(f[1])
			th, _ := strconv.Atoi(f[2])
			cs.Bounded = append(cs.Bounded, BoundedCheck{Prop: f[0], Pkg: pkg, Quick: q, Thorough: th, Desc: strings.Join(f[3:], " ")})
		case "ghostvar":
			// ghostvar <name> <number of integer indices> <element type>
			f := strings.Fields(rest)
			if len(f) != 3 {
				return fail("ghostvar <name> <indices> <type>")
			}
			n, err := strconv.Atoi(f[1])
			if err != nil {
				return fail("ghostvar: %v", err)
			}
			cs.GhostVars[f[0]] = &GhostVar{Name: f[0], Dims: n, Type: f[2], Pkg: pkg}
		case "pair":
			// pair <property> <fork function key> <original function key>
			f := strings.Fields(rest)
			if len(f) != 3 {
				return fail("pair <property> <fork key> <original key>")
			}
			cs.Pairs = append(cs.Pairs, Pair{Prop: f[0], Fork: pkg + "." + f[1], Orig: f[2]})
		case "type":
			// type Name(recv) invariant expr
			name, r2 := splitWord(rest)
			recv := "this"
			if j := strings.Index(name, "("); j > 0 {
				recv = strings.TrimSuffix(name[j+1:], ")")
				name = name[:j]
			}
			k2, r3 := splitWord(r2)
			if k2 != "invariant" {
				return fail("type T(recv) invariant expr")
			}
			e, err := parse(r3)
			if err != nil {
				return err
			}
			cs.TypeInvs[pkg+"."+name] = &TypeInv{Type: name, Recv: recv, Body: e, Pkg: pkg}
		default:
			return fail("unknown clause %q", kw)
		}
	}
	return nil
}

func splitWord(s string) (string, string) {
	s = strings.TrimSpace(s)
	j := strings.IndexAny(s, " \t")
	if j < 0 {
		return s, ""
	}
	return s[:j], strings.TrimSpace(s[j+1:])
}

func splitTop(s string, sep rune) []string {
	var out []string
	depth := 0
	start := 0
	for i, c := range s {
		switch c {
		case '(', '[':
			depth++
		case ')', ']':
			depth--
		default:
			if c == sep && depth == 0 {
				out = append(out, s[start:i])
				start = i + 1
			}
		}
	}
	out = append(out, s[start:])
	return out
}

func parseParams(s string) ([]BoundVar, error) {
	var out []BoundVar
	s = strings.TrimSpace(s)
	if s == "" {
		return nil, nil
	}
	for _, p := range splitTop(s, ',') {
		f := strings.Fields(p)
		switch len(f) {
		case 1:
			out = append(out, BoundVar{Name: f[0]})
		case 2:
			out = append(out, BoundVar{Name: f[0], Type: f[1]})
		default:
			return nil, fmt.Errorf("bad parameter %q", p)
		}
	}
	for i := len(out) - 2; i >= 0; i-- {
		if out[i].Type == "" {
			out[i].Type = out[i+1].Type
		}
	}
	return out, nil
}

func parseSpecFunc(s string) (*SpecFunc, error) {
	i := strings.Index(s, "(")
	j := matchParen(s, i)
	if i < 0 || j < 0 {
		return nil, fmt.Errorf("spec name(params) ret [= body]")
	}
	sf := &SpecFunc{Name: strings.TrimSpace(s[:i])}
	ps, err := parseParams(s[i+1 : j])
	if err != nil {
		return nil, err
	}
	sf.Params = ps
	rest := strings.TrimSpace(s[j+1:])
	if k := strings.Index(rest, "="); k >= 0 && !strings.HasPrefix(rest[k:], "==") {
		sf.Ret = strings.TrimSpace(rest[:k])
		e, err := ParseSpecExpr(rest[k+1:])
		if err != nil {
			return nil, err
		}
		sf.Body = e
	} else {
		sf.Ret = rest
	}
	return sf, nil
}

func parseAxiom(s string) (*Axiom, error) {
	i := strings.Index(s, "(")
	j := matchParen(s, i)
	if i < 0 || j < 0 {
		return nil, fmt.Errorf("axiom name(params): body")
	}
	ax := &Axiom{Name: strings.TrimSpace(s[:i])}
	ps, err := parseParams(s[i+1 : j])
	if err != nil {
		return nil, err
	}
	ax.Params = ps
	rest := strings.TrimSpace(s[j+1:])
	if strings.HasPrefix(rest, "auto") {
		ax.Auto = true
		rest = strings.TrimSpace(strings.TrimPrefix(rest, "auto"))
	}
	if !strings.HasPrefix(rest, ":") {
		return nil, fmt.Errorf("axiom name(params): body")
	}
	if ax.Auto {
		// a global, quantified axiom: forall params :: {triggers} body
		src := strings.TrimSpace(rest[1:])
		if len(ps) > 0 {
			var vs []string
			for _, p := range ps {
				if p.Type != "" {
					vs = append(vs, p.Name+" "+p.Type)
				} else {
					vs = append(vs, p.Name)
				}
			}
			src = "forall " + strings.Join(vs, ", ") + " :: " + src
		}
		e, err := ParseSpecExpr(src)
		if err != nil {
			return nil, err
		}
		ax.Body = e
		return ax, nil
	}
	e, err := ParseSpecExpr(rest[1:])
	if err != nil {
		return nil, err
	}
	ax.Body = e
	return ax, nil
}

func matchParen(s string, i int) int {
	if i < 0 {
		return -1
	}
	depth := 0
	for k := i; k < len(s); k++ {
		switch s[k] {
		case '(':
			depth++
		case ')':
			depth--
			if depth == 0 {
				return k
			}
		}
	}
	return -1
}
