package main

// The verification-condition generator: forward symbolic execution of go/ssa
// with loops cut at invariants and calls replaced by contracts.

import (
	"fmt"
	"go/constant"
	"go/token"
	"go/types"
	"sort"
	"strings"

	"golang.org/x/tools/go/ssa"
)

type Engine struct {
	prog  *ssa.Program
	pkgs  map[string]*ssa.Package // by package name
	cs    *ContractSet
	ctx   *Ctx
	lay   *Layouter
	obs   []*Obligation
	notes []string

	root     *ssa.Function
	rootC    *Contract
	rootEnv  TEnv
	class    string
	entry    *State
	next0    Term
	inputs   map[string]Term
	cellN    int
	paths    int
	maxPaths int
	funcName string
	rootFr   *Frame
	params   map[string]Val
	concurrent bool
	loopOrd  map[*ssa.BasicBlock]int
	depthCap int
	trustedUsed map[string]bool
	callees  map[string]bool
	nlaUF    bool
	subFuns  map[string]bool
	subCodes map[string]int
	adtTypes map[string]types.Type
	lemmaTNames map[string]types.Type
	useAllocID bool
	rel      *relRun
	lastLoad map[ssa.Value]*Loc
	lastRet  []ssa.Value
	borrowed map[*ssa.BasicBlock]*LoopSpec // loop clauses taken from another contract for a loop that has none (exec.go)
}

func (e *Engine) obligation(st *State, kind, label string, goal Term, note string) {
	if st.dead {
		return
	}
	name := fmt.Sprintf("%s/%s", e.funcName, kind)
	if label != "" {
		name += "[" + label + "]"
	}
	name += "/" + st.pathName()
	o := &Obligation{Name: name, Kind: kind, Func: e.funcName, Assume: append([]Term(nil), st.pc...), Goal: goal, Ctx: e.ctx, Inputs: e.inputs, Note: note}
	e.obs = append(e.obs, o)
}

func (e *Engine) newCell(v Val) int {
	e.cellN++
	return e.cellN
}

// ---------------------------------------------------------------------------
// values

func (e *Engine) zeroLeaf(lf Leaf) Term {
	s := lf.Sort
	switch {
	case s == SInt:
		return IntLit(0)
	case s == SBool:
		return False
	case s.IsBV():
		return BVLit(s.BVWidth(), 0)
	case s.IsFP():
		return Term{"(_ +zero " + fpDims(s) + ")", s}
	}
	return e.ctx.Const("zero_"+string(s), s)
}

func fpDims(s Sort) string {
	str := strings.TrimSuffix(strings.TrimPrefix(string(s), "(_ FloatingPoint "), ")")
	return str
}

func (e *Engine) zeroVal(t types.Type) Val {
	ls := e.lay.Leaves(t)
	v := Val{T: t, L: make([]Term, len(ls))}
	for i, lf := range ls {
		v.L[i] = e.zeroLeaf(lf)
	}
	return v
}

func (e *Engine) freshVal(hint string, t types.Type) Val {
	ls := e.lay.Leaves(t)
	v := Val{T: t, L: make([]Term, len(ls))}
	for i, lf := range ls {
		h := hint
		if lf.Path != "" {
			h += "_" + lf.Path
		}
		v.L[i] = e.ctx.Fresh(h, lf.Sort)
	}
	return v
}

// wellFormed returns the representation invariants of a symbolic value that
// the Go type system / runtime guarantee (slice header sanity, refs allocated).
func (e *Engine) wellFormed(v Val, next Term) Term {
	var cs []Term
	e.wf(v.T, v.L, next, &cs)
	return And(cs...)
}

func (e *Engine) wf(t types.Type, l []Term, next Term, cs *[]Term) {
	switch x := t.Underlying().(type) {
	case *types.Slice:
		base, off, ln, cp := l[0], l[1], l[2], l[3]
		*cs = append(*cs, Le(IntLit(0), base), Lt(base, next), Le(IntLit(0), off), Le(IntLit(0), ln), Le(ln, cp),
			Implies(Eq(base, IntLit(0)), And(Eq(cp, IntLit(0)), Eq(off, IntLit(0)))))
	case *types.Pointer:
		// allocated objects are below the allocation counter; sub-object references are negative
		*cs = append(*cs, Lt(e.allocID(l[0]), next))
		if e.useAllocID {
			// a non-nil pointer points into an allocated object
			*cs = append(*cs, Implies(Not(Eq(l[0], IntLit(0))), Lt(IntLit(0), e.allocID(l[0]))))
		}
	case *types.Map, *types.Chan:
		*cs = append(*cs, Le(IntLit(0), l[0]), Lt(l[0], next))
	case *types.Struct:
		off := 0
		for i := 0; i < x.NumFields(); i++ {
			n := len(e.lay.Leaves(x.Field(i).Type()))
			e.wf(x.Field(i).Type(), l[off:off+n], next, cs)
			off += n
		}
	case *types.Array:
		n := len(e.lay.Leaves(x.Elem()))
		for i := 0; i < int(x.Len()); i++ {
			e.wf(x.Elem(), l[i*n:(i+1)*n], next, cs)
		}
	case *types.Basic:
		if !e.lay.bvMode && x.Info()&types.IsUnsigned != 0 && len(l) == 1 && l[0].Sort == SInt {
			*cs = append(*cs, Le(IntLit(0), l[0]))
		}
	case *types.Interface:
		if tp, ok := t.(*types.TypeParam); ok {
			if c := coreOf(tp); c != nil {
				e.wf(c, l, next, cs)
			}
		} else if len(l) == 2 {
			// a nil interface has no payload
			*cs = append(*cs, Implies(Eq(l[0], IntLit(0)), Eq(l[1], e.ctx.Const("zero_Box", l[1].Sort))))
			if isNamed(t, "sets", "Set") {
				// the set object behind a non-nil Set value has been allocated
				ref := e.setMapOf(nil, Val{T: t, L: l}).L[0]
				id := e.allocID(ref)
				*cs = append(*cs, Implies(Not(Eq(l[0], IntLit(0))), And(Lt(IntLit(0), id), Lt(id, next))))
			}
		}
	}
}

func (e *Engine) constVal(c *ssa.Const, env TEnv) Val {
	t := resolve(c.Type(), env)
	if c.Value == nil {
		return e.zeroVal(t)
	}
	ls := e.lay.Leaves(t)
	if len(ls) != 1 {
		panic(unsupported("constant of composite type %s", t))
	}
	s := ls[0].Sort
	switch c.Value.Kind() {
	case constant.Bool:
		if constant.BoolVal(c.Value) {
			return Val{T: t, L: []Term{True}}
		}
		return Val{T: t, L: []Term{False}}
	case constant.Int:
		return Val{T: t, L: []Term{e.numLit(s, c.Value)}}
	case constant.Float:
		return Val{T: t, L: []Term{e.numLit(s, c.Value)}}
	case constant.String:
		str := constant.StringVal(c.Value)
		if str == "" {
			return Val{T: t, L: []Term{e.ctx.Const("zero_"+string(s), s)}}
		}
		name := fmt.Sprintf("strlit_%x", hashString(str))
		k := e.ctx.Const(name, s)
		e.ctx.Axiom("ne_"+name, "(not (= "+k.S+" "+e.ctx.Const("zero_"+string(s), s).S+"))")
		return Val{T: t, L: []Term{k}}
	case constant.Complex:
		re, _ := constant.Float64Val(constant.Real(c.Value))
		im, _ := constant.Float64Val(constant.Imag(c.Value))
		if re == 0 && im == 0 {
			return Val{T: t, L: []Term{e.ctx.Const("zero_"+string(s), s)}}
		}
		if re == 1 && im == 0 {
			return Val{T: t, L: []Term{e.ctx.Const("c_one", s)}}
		}
	}
	panic(unsupported("constant %s", c))
}

func hashString(s string) uint32 {
	var h uint32 = 2166136261
	for i := 0; i < len(s); i++ {
		h ^= uint32(s[i])
		h *= 16777619
	}
	return h
}

// numLit renders an exact numeric constant in sort s.
func (e *Engine) numLit(s Sort, v constant.Value) Term {
	switch {
	case s == SInt:
		if i, ok := constant.Int64Val(constant.ToInt(v)); ok {
			return IntLit(i)
		}
		str := constant.ToInt(v).ExactString()
		if strings.HasPrefix(str, "-") {
			return Term{"(- " + str[1:] + ")", SInt}
		}
		return Term{str, SInt}
	case s.IsBV():
		w := s.BVWidth()
		iv := constant.ToInt(v)
		if u, ok := constant.Uint64Val(iv); ok {
			return BVLit(w, u)
		}
		if i, ok := constant.Int64Val(iv); ok {
			return BVLit(w, uint64(i))
		}
		panic(unsupported("integer constant %s out of range", v))
	case s.IsFP():
		f, _ := constant.Float64Val(v)
		if f == 0 {
			return Term{"(_ +zero " + fpDims(s) + ")", s}
		}
		// exact for the small integers used in the code base
		return Term{fmt.Sprintf("((_ to_fp %s) RNE %s)", fpDims(s), realLit(v)), s}
	case s == "Float":
		f, _ := constant.Float64Val(v)
		if f == 0 {
			return e.ctx.Const("zero_Float", s)
		}
		return e.ctx.Const(fmt.Sprintf("flit_%x", hashString(v.ExactString())), s)
	case s == "Cplx":
		f, _ := constant.Float64Val(constant.Real(constant.ToComplex(v)))
		if f == 0 {
			return e.ctx.Const("zero_Cplx", s)
		}
		if f == 1 {
			return e.ctx.Const("c_one", s)
		}
	}
	panic(unsupported("numeric constant %s in sort %s", v, s))
}

func realLit(v constant.Value) string {
	f, _ := constant.Float64Val(v)
	if f < 0 {
		return fmt.Sprintf("(- %s)", strings.TrimPrefix(constant.ToFloat(v).ExactString(), "-")+".0")
	}
	s := constant.ToFloat(v).ExactString()
	if strings.Contains(s, "/") {
		parts := strings.Split(s, "/")
		return "(/ " + parts[0] + ".0 " + parts[1] + ".0)"
	}
	return s + ".0"
}

// ---------------------------------------------------------------------------
// heaps

func (e *Engine) sliceHeapKey(elem types.Type, leaf int) string {
	return fmt.Sprintf("HS_%s_%d", typeKey(elem), leaf)
}

func (e *Engine) getSliceHeap(st *State, elem types.Type, leaf int) Term {
	k := e.sliceHeapKey(elem, leaf)
	if t, ok := st.sliceHeap[k]; ok {
		return t
	}
	ls := e.lay.Leaves(elem)
	return e.ctx.Const(k+"_0", ArrSort(SInt, ArrSort(SInt, ls[leaf].Sort)))
}

func (e *Engine) setSliceHeap(st *State, elem types.Type, leaf int, t Term) {
	st.sliceHeap[e.sliceHeapKey(elem, leaf)] = t
}

func (e *Engine) objHeapKey(root types.Type, leaf int) string {
	return fmt.Sprintf("HO_%s_%d", e.relKey(typeKey(root)), leaf)
}

// relKey identifies a forked type with its standard-library original (relational mode only).
func (e *Engine) relKey(k string) string {
	if e.rel == nil {
		return k
	}
	for _, p := range e.rel.alias {
		k = strings.ReplaceAll(k, p[0], p[1])
	}
	return k
}

func (e *Engine) getObjHeap(st *State, root types.Type, leaf int) Term {
	k := e.objHeapKey(root, leaf)
	if t, ok := st.objHeap[k]; ok {
		return t
	}
	ls := e.lay.Leaves(root)
	for _, pfx := range st.objHavoc {
		if strings.HasPrefix(k, pfx) {
			// a callee with `assigns objects(T)` ran before this heap was first looked at: not the entry heap
			t := e.ctx.Fresh(k+"_afterobjects", ArrSort(SInt, ls[leaf].Sort))
			st.objHeap[k] = t
			return t
		}
	}
	return e.ctx.Const(k+"_0", ArrSort(SInt, ls[leaf].Sort))
}

func (e *Engine) setObjHeap(st *State, root types.Type, leaf int, t Term) {
	st.objHeap[e.objHeapKey(root, leaf)] = t
}

// name a heap term so that scripts stay small
func (e *Engine) nameTerm(st *State, hint string, t Term) Term {
	if len(t.S) < 60 || e.rel != nil {
		return t
	}
	c := e.ctx.Fresh(hint, t.Sort)
	st.Assume(Eq(c, t))
	return c
}

func elemOfSlice(t types.Type) types.Type {
	switch x := t.Underlying().(type) {
	case *types.Slice:
		return x.Elem()
	case *types.Pointer:
		if a, ok := x.Elem().Underlying().(*types.Array); ok {
			return a.Elem()
		}
	}
	if tp, ok := t.(*types.TypeParam); ok {
		if c := coreOf(tp); c != nil {
			return elemOfSlice(c)
		}
	}
	panic(unsupported("not a slice type: %s", t))
}

// loadElem reads element idx (relative to the slice) of slice value sv.
func (e *Engine) loadElem(st *State, sv Val, idx Term) Val {
	et := resolve(elemOfSlice(sv.T), nil)
	ls := e.lay.Leaves(et)
	out := Val{T: et, L: make([]Term, len(ls))}
	pos := Add(sv.L[1], e.idxWrap(idx))
	for i := range ls {
		h := e.getSliceHeap(st, et, i)
		out.L[i] = Select(Select(h, sv.L[0]), pos)
	}
	return out
}

func (e *Engine) loadLoc(st *State, loc *Loc) Val {
	switch loc.Kind {
	case LocCell:
		c, ok := st.cells[loc.Cell]
		if !ok {
			panic(fmt.Sprintf("internal: unknown cell %d", loc.Cell))
		}
		if loc.N == len(c.L) && loc.Off == 0 {
			return Val{T: loc.T, L: c.L, Fn: c.Fn, P: c.P}
		}
		return Val{T: loc.T, L: c.L[loc.Off : loc.Off+loc.N]}
	case LocObj:
		out := Val{T: loc.T, L: make([]Term, loc.N)}
		for i := 0; i < loc.N; i++ {
			out.L[i] = Select(e.getObjHeap(st, loc.Root, loc.Off+i), loc.Ref)
		}
		return out
	case LocElem:
		out := Val{T: loc.T, L: make([]Term, loc.N)}
		for i := 0; i < loc.N; i++ {
			h := e.getSliceHeap(st, loc.ElemT, loc.Off+i)
			out.L[i] = Select(Select(h, loc.Base), loc.Idx)
		}
		return out
	case LocOwned:
		c := e.openChunk(st, e.ownedDecl(loc.Root), loc.Ref, loc.Root, "load")
		return Val{T: loc.T, L: append([]Term(nil), c.F[loc.Off:loc.Off+loc.N]...)}
	case LocArr:
		ls := e.lay.Leaves(loc.ElemT)
		out := Val{T: loc.T}
		for j := 0; j < loc.N; j++ {
			for i := range ls {
				out.L = append(out.L, Select(Select(e.getSliceHeap(st, loc.ElemT, i), loc.Base), IntLit(int64(j))))
			}
		}
		return out
	}
	panic("internal: bad loc kind")
}

func (e *Engine) storeLoc(st *State, loc *Loc, v Val) {
	if loc.Kind == LocArr {
		ls := e.lay.Leaves(loc.ElemT)
		for j := 0; j < loc.N; j++ {
			for i := range ls {
				h := e.getSliceHeap(st, loc.ElemT, i)
				row := Select(h, loc.Base)
				e.setSliceHeap(st, loc.ElemT, i, e.nameTerm(st, e.sliceHeapKey(loc.ElemT, i), Store(h, loc.Base, Store(row, IntLit(int64(j)), v.L[j*len(ls)+i]))))
			}
		}
		return
	}
	if loc.Kind == LocOwned {
		c := e.openChunk(st, e.ownedDecl(loc.Root), loc.Ref, loc.Root, "store")
		nf := append([]Term(nil), c.F...)
		copy(nf[loc.Off:], v.L)
		st.setChunk(&Chunk{Open: true, Ref: loc.Ref, F: nf})
		return
	}
	if len(v.L) != loc.N {
		panic(fmt.Sprintf("internal: store of %d leaves into location of %d (%s into %s)", len(v.L), loc.N, v.T, loc.T))
	}
	switch loc.Kind {
	case LocCell:
		c := st.cells[loc.Cell]
		if loc.Off == 0 && loc.N == len(c.L) {
			st.cells[loc.Cell] = Val{T: c.T, L: v.L, Fn: v.Fn, P: v.P}
			return
		}
		nl := append([]Term(nil), c.L...)
		copy(nl[loc.Off:], v.L)
		st.cells[loc.Cell] = Val{T: c.T, L: nl}
	case LocObj:
		for i := 0; i < loc.N; i++ {
			h := e.getObjHeap(st, loc.Root, loc.Off+i)
			e.setObjHeap(st, loc.Root, loc.Off+i, e.nameTerm(st, e.objHeapKey(loc.Root, loc.Off+i), Store(h, loc.Ref, v.L[i])))
		}
	case LocElem:
		for i := 0; i < loc.N; i++ {
			h := e.getSliceHeap(st, loc.ElemT, loc.Off+i)
			row := Select(h, loc.Base)
			e.setSliceHeap(st, loc.ElemT, loc.Off+i, e.nameTerm(st, e.sliceHeapKey(loc.ElemT, loc.Off+i), Store(h, loc.Base, Store(row, loc.Idx, v.L[i]))))
		}
	}
}

// idxWrap marks an element index with the identity function idx so that
// quantifiers over element positions have a robust instantiation trigger
// (arithmetic inside select terms is normalised away by the solvers).
func (e *Engine) idxWrap(i Term) Term {
	if isNumeral(i) {
		return i
	}
	f := e.ctx.Fun("idx", []Sort{SInt}, SInt)
	e.ctx.Axiom("idx_id", "(forall ((x Int)) (! (= (idx x) x) :pattern ((idx x))))")
	return T(SInt, "(%s %s)", f, i.S)
}

// locOf turns a pointer value into a location.
func (e *Engine) locOf(pv Val) *Loc {
	if pv.P != nil {
		return pv.P
	}
	pt, ok := pv.T.Underlying().(*types.Pointer)
	if !ok {
		if tp, ok2 := pv.T.(*types.TypeParam); ok2 {
			if c := coreOf(tp); c != nil {
				pt, ok = c.(*types.Pointer)
			}
		}
		if !ok {
			panic(unsupported("dereference of non-pointer %s", pv.T))
		}
	}
	el := pt.Elem()
	if e.ownedDecl(el) != nil {
		return &Loc{Kind: LocOwned, Ref: pv.L[0], Root: el, Off: 0, N: len(e.lay.Leaves(el)), T: el}
	}
	return &Loc{Kind: LocObj, Ref: pv.L[0], Root: el, Off: 0, N: len(e.lay.Leaves(el)), T: el}
}

// ---------------------------------------------------------------------------
// integer / ordered operations

func (e *Engine) isUnsigned(t types.Type) bool {
	if b, ok := t.Underlying().(*types.Basic); ok {
		return b.Info()&types.IsUnsigned != 0
	}
	return false
}

func (e *Engine) binop(st *State, op token.Token, x, y Val, resT types.Type, pos string) Val {
	rt := resT
	// comparisons of composite values
	if op == token.EQL || op == token.NEQ {
		eq := e.valEq(x, y)
		if op == token.NEQ {
			eq = Not(eq)
		}
		return Val{T: rt, L: []Term{eq}}
	}
	if len(x.L) != 1 || len(y.L) != 1 {
		panic(unsupported("binary %s on composite values", op))
	}
	a, b := x.L[0], y.L[0]
	s := a.Sort
	mk := func(t Term) Val { return Val{T: rt, L: []Term{t}} }
	unsigned := e.isUnsigned(x.T)
	switch {
	case s == SBool:
		switch op {
		case token.LAND, token.AND:
			return mk(And(a, b))
		case token.LOR, token.OR:
			return mk(Or(a, b))
		}
	case s == SInt:
		switch op {
		case token.ADD:
			return mk(Add(a, b))
		case token.SUB:
			return mk(Sub(a, b))
		case token.MUL:
			if e.nlaUF && !isNumeral(a) && !isNumeral(b) {
				return mk(e.mulUF(a, b))
			}
			return mk(Mul(a, b))
		case token.QUO:
			e.obligationPanic(st, "div0", pos, Not(Eq(b, IntLit(0))))
			return mk(e.truncDiv(a, b))
		case token.REM:
			e.obligationPanic(st, "div0", pos, Not(Eq(b, IntLit(0))))
			return mk(Sub(a, Mul(b, e.truncDiv(a, b))))
		case token.LSS:
			return mk(Lt(a, b))
		case token.LEQ:
			return mk(Le(a, b))
		case token.GTR:
			return mk(Gt(a, b))
		case token.GEQ:
			return mk(Ge(a, b))
		}
	case s.IsBV():
		w := s.BVWidth()
		bb := b
		if b.Sort != s && b.Sort.IsBV() {
			// shift counts may have another width
			bw := b.Sort.BVWidth()
			if bw < w {
				bb = T(s, "((_ zero_extend %d) %s)", w-bw, b.S)
			} else {
				bb = T(s, "((_ extract %d 0) %s)", w-1, b.S)
			}
		}
		f := func(name string) Val { return mk(T(s, "(%s %s %s)", name, a.S, bb.S)) }
		p := func(name string) Val { return mk(T(SBool, "(%s %s %s)", name, a.S, bb.S)) }
		switch op {
		case token.ADD:
			return f("bvadd")
		case token.SUB:
			return f("bvsub")
		case token.MUL:
			return f("bvmul")
		case token.AND:
			return f("bvand")
		case token.OR:
			return f("bvor")
		case token.XOR:
			return f("bvxor")
		case token.SHL:
			return f("bvshl")
		case token.SHR:
			if unsigned {
				return f("bvlshr")
			}
			return f("bvashr")
		case token.QUO:
			e.obligationPanic(st, "div0", pos, Not(Eq(b, BVLit(w, 0))))
			if unsigned {
				return f("bvudiv")
			}
			return f("bvsdiv")
		case token.REM:
			e.obligationPanic(st, "div0", pos, Not(Eq(b, BVLit(w, 0))))
			if unsigned {
				return f("bvurem")
			}
			return f("bvsrem")
		case token.LSS:
			if unsigned {
				return p("bvult")
			}
			return p("bvslt")
		case token.LEQ:
			if unsigned {
				return p("bvule")
			}
			return p("bvsle")
		case token.GTR:
			if unsigned {
				return p("bvugt")
			}
			return p("bvsgt")
		case token.GEQ:
			if unsigned {
				return p("bvuge")
			}
			return p("bvsge")
		}
	case s.IsFP():
		// arithmetic results are only ever compared with identical computations: keep them
		// uninterpreted (sound abstraction; avoids bit-blasting 53-bit multipliers)
		f := func(name string) Val {
			return mk(e.ctx.App(strings.ReplaceAll(name, ".", "_")+"_w"+fmt.Sprint(len(string(s))), s, a, b))
		}
		p := func(name string) Val { return mk(T(SBool, "(%s %s %s)", name, a.S, b.S)) }
		switch op {
		case token.ADD:
			return f("fp.add")
		case token.SUB:
			return f("fp.sub")
		case token.MUL:
			return f("fp.mul")
		case token.QUO:
			return f("fp.div")
		case token.LSS:
			return p("fp.lt")
		case token.LEQ:
			return p("fp.leq")
		case token.GTR:
			return p("fp.gt")
		case token.GEQ:
			return p("fp.geq")
		}
	default:
		// uninterpreted ordered / numeric sorts (Str, Float outside bv mode, Cplx)
		name := string(s)
		switch op {
		case token.LSS:
			return mk(e.ordLt(s, a, b))
		case token.GTR:
			return mk(e.ordLt(s, b, a))
		case token.LEQ:
			return mk(Not(e.ordLt(s, b, a)))
		case token.GEQ:
			return mk(Not(e.ordLt(s, a, b)))
		case token.ADD:
			return mk(e.ctx.App("add_"+name, s, a, b))
		case token.MUL:
			return mk(e.ctx.App("mul_"+name, s, a, b))
		case token.SUB:
			return mk(e.ctx.App("sub_"+name, s, a, b))
		case token.QUO:
			return mk(e.ctx.App("quo_"+name, s, a, b))
		}
	}
	panic(unsupported("binary operator %s on sort %s", op, s))
}

func isNumeral(t Term) bool {
	s := t.S
	if strings.HasPrefix(s, "(- ") {
		s = strings.TrimSuffix(s[3:], ")")
	}
	if s == "" {
		return false
	}
	for _, c := range s {
		if c < '0' || c > '9' {
			return false
		}
	}
	return true
}

// mulUF abstracts a product of two symbolic integers by an uninterpreted
// function constrained only by facts that hold for real multiplication
// (commutativity, sign, strict monotonicity in steps of the other factor).
// A proof under this abstraction is a proof for real multiplication; it keeps
// the solvers out of undecidable nonlinear arithmetic under quantifiers.
func (e *Engine) mulUF(a, b Term) Term {
	f := e.ctx.Fun("mul", []Sort{SInt, SInt}, SInt)
	e.ctx.Axiom("mul_comm", "(forall ((x Int) (y Int)) (! (= (mul x y) (mul y x)) :pattern ((mul x y))))")
	e.ctx.Axiom("mul_sign", "(forall ((x Int) (y Int)) (! (=> (and (<= 0 x) (<= 0 y)) (<= 0 (mul x y))) :pattern ((mul x y))))")
	e.ctx.Axiom("mul_mono", "(forall ((x1 Int) (x2 Int) (y Int)) (! (=> (and (< x1 x2) (<= 0 y)) (<= (+ (mul x1 y) y) (mul x2 y))) :pattern ((mul x1 y) (mul x2 y))))")
	e.ctx.Axiom("mul_succ", "(forall ((x1 Int) (x2 Int) (y Int)) (! (=> (= x2 (+ x1 1)) (= (mul x2 y) (+ (mul x1 y) y))) :pattern ((mul x1 y) (mul x2 y))))")
	e.ctx.Axiom("mul_zero", "(forall ((y Int)) (! (= (mul 0 y) 0) :pattern ((mul 0 y))))")
	e.ctx.Axiom("mul_eq", "(forall ((x1 Int) (x2 Int) (y Int)) (! (=> (= x1 x2) (= (mul x1 y) (mul x2 y))) :pattern ((mul x1 y) (mul x2 y))))")
	return T(SInt, "(%s %s %s)", f, a.S, b.S)
}

// ordLt is a strict total order on an uninterpreted sort (strings, abstract floats without NaN).
func (e *Engine) ordLt(s Sort, a, b Term) Term {
	name := "lt_" + sanitize(string(s))
	f := e.ctx.Fun(name, []Sort{s, s}, SBool)
	e.ctx.Axiom("irr_"+name, fmt.Sprintf("(forall ((x %s)) (not (%s x x)))", s, f))
	e.ctx.Axiom("trans_"+name, fmt.Sprintf("(forall ((x %s) (y %s) (z %s)) (=> (and (%s x y) (%s y z)) (%s x z)))", s, s, s, f, f, f))
	e.ctx.Axiom("total_"+name, fmt.Sprintf("(forall ((x %s) (y %s)) (or (%s x y) (%s y x) (= x y)))", s, s, f, f))
	return T(SBool, "(%s %s %s)", f, a.S, b.S)
}

// truncDiv is Go's truncated division over mathematical integers.
func (e *Engine) truncDiv(a, b Term) Term {
	// SMT div is floor for positive divisor / ceil for negative (Euclidean); truncation:
	// a/b = sign(a)sign(b) * (|a| div |b|)
	abs := func(t Term) Term { return T(SInt, "(ite (>= %s 0) %s (- %s))", t.S, t.S, t.S) }
	q := T(SInt, "(div %s %s)", abs(a).S, abs(b).S)
	return T(SInt, "(ite (= (>= %s 0) (>= %s 0)) %s (- %s))", a.S, b.S, q.S, q.S)
}

func (e *Engine) valEq(x, y Val) Term {
	// nil comparisons with differently shaped constants
	if len(x.L) != len(y.L) {
		panic(unsupported("comparison of values with different layouts %s (%d leaves) vs %s (%d leaves)", x.T, len(x.L), y.T, len(y.L)))
	}
	switch x.T.Underlying().(type) {
	case *types.Slice:
		// only comparison with nil is legal Go
		return Eq(x.L[0], y.L[0])
	}
	var cs []Term
	for i := range x.L {
		cs = append(cs, Eq(x.L[i], y.L[i]))
	}
	return And(cs...)
}

// ---------------------------------------------------------------------------
// panics

// obligationPanic: `ok` must hold or the function is allowed to panic here.
func (e *Engine) obligationPanic(st *State, kind, label string, ok Term) {
	if ok.S == "true" {
		return
	}
	if e.rel != nil {
		if !st.dead {
			bad := st.Clone()
			bad.Assume(Not(ok))
			bad.path = append(bad.path, "!")
			e.relRecord("panic", -1, bad, nil, nil)
		}
		st.Assume(ok)
		return
	}
	if e.rootC != nil && e.rootC.PanicsIff != nil {
		// permitted iff the panic condition holds on entry; on_panic clauses must hold too
		se := e.specEnv(e.entry, e.entry, e.rootFr)
		cond := e.evalBool(e.rootC.PanicsIff.E, se)
		bad := st.Clone()
		bad.Assume(Not(ok))
		e.obligation(bad, kind, label, cond, "implicit panic must be allowed by panics_iff")
		e.checkOnPanic(bad)
	} else {
		e.obligation(st, kind, label, ok, "must not panic")
	}
	st.Assume(ok)
}

// oldOf: the state `old(...)` refers to on this path.
func (e *Engine) oldOf(st *State) *State {
	if st != nil && st.base != nil {
		return st.base
	}
	return e.entry
}

func (e *Engine) checkOnPanic(st *State) {
	if e.rootC == nil {
		return
	}
	for i, c := range e.rootC.OnPanic {
		se := e.specEnv(st, e.entry, e.rootFr)
		se.vars = e.params
		g := e.evalBool(c.E, se)
		lab := c.Label
		if lab == "" {
			lab = fmt.Sprint(i)
		}
		e.obligation(st, "on_panic", lab, g, c.Src)
	}
	e.checkFrame(st, "on_panic-assigns")
}

func (e *Engine) explicitPanic(st *State, fr *Frame, what string) {
	e.paths++
	if e.rel != nil {
		e.relRecord("panic", -1, st, nil, nil)
		return
	}
	if e.rootC != nil && e.rootC.PanicsIff != nil {
		se := e.specEnv(e.entry, e.entry, e.rootFr)
		cond := e.evalBool(e.rootC.PanicsIff.E, se)
		e.obligation(st, "panics_iff", "panic=>cond", cond, "explicit panic "+what)
		e.checkOnPanic(st)
	} else {
		e.obligation(st, "no-panic", what, False, "explicit panic must be unreachable")
	}
}

// ---------------------------------------------------------------------------
// helpers

func (e *Engine) note(f string, a ...interface{}) {
	s := fmt.Sprintf(f, a...)
	for _, n := range e.notes {
		if n == s {
			return
		}
	}
	e.notes = append(e.notes, s)
}

func posOf(fn *ssa.Function, p token.Pos) string {
	if !p.IsValid() {
		return "?"
	}
	pp := fn.Prog.Fset.Position(p)
	return fmt.Sprintf("L%d", pp.Line)
}

func sortedNames(m map[string]NameBinding) []string {
	var ks []string
	for k := range m {
		ks = append(ks, k)
	}
	sort.Strings(ks)
	return ks
}
