package main

// govc mutants <property>: contract-strength measurement. For every function under contract for the property,
// first-order mutants of its body (relational/arithmetic/logical operator swaps, integer literal +-1, negated
// conditions, dropped statements) are applied one at a time to a scratch copy of the repository. A mutant that does not
// compile or that the package's own tests reject is discarded; for every other mutant the property's check is run on
// the mutated function. "killed" = the check reports a VIOLATION; "survived" = a contract hole or an equivalent mutant,
// listed in the report for inspection. This tool never touches /repo and is not part of the pass/fail checks.

import (
	"context"
	"encoding/json"
	"fmt"
	"go/ast"
	"go/parser"
	"go/token"
	"os"
	"os/exec"
	"path/filepath"
	"sort"
	"strings"
	"sync"
	"time"
)

type mutant struct {
	Func   string `json:"func"`
	File   string `json:"file"`
	Line   int    `json:"line"`
	Kind   string `json:"kind"`
	From   string `json:"from"`
	To     string `json:"to"`
	Status string `json:"status"` // killed | survived | rejected-by-tests | does-not-compile | error
	Detail string `json:"detail,omitempty"`
	start  int
	end    int
}

var opSwap = map[token.Token][]string{
	token.LSS: {"<="}, token.LEQ: {"<"}, token.GTR: {">="}, token.GEQ: {">"},
	token.EQL: {"!="}, token.NEQ: {"=="}, token.ADD: {"-"}, token.SUB: {"+"},
	token.LAND: {"||"}, token.LOR: {"&&"},
}

func collectMutants(repo, pkgDir, key string, perFunc int) []*mutant {
	fset := token.NewFileSet()
	dir := filepath.Join(repo, pkgDir)
	pkgs, err := parser.ParseDir(fset, dir, func(fi os.FileInfo) bool {
		return !strings.HasSuffix(fi.Name(), "_test.go") && !strings.HasPrefix(fi.Name(), "zz_")
	}, 0)
	if err != nil {
		return nil
	}
	recv, name := "", key
	if i := strings.Index(key, "."); i >= 0 {
		recv, name = key[:i], key[i+1:]
	}
	var out []*mutant
	for _, p := range pkgs {
		for fname, f := range p.Files {
			for _, d := range f.Decls {
				fd, ok := d.(*ast.FuncDecl)
				if !ok || fd.Body == nil || fd.Name.Name != name {
					continue
				}
				r := ""
				if fd.Recv != nil && len(fd.Recv.List) == 1 {
					t := fd.Recv.List[0].Type
					if st, ok := t.(*ast.StarExpr); ok {
						t = st.X
					}
					switch x := t.(type) {
					case *ast.Ident:
						r = x.Name
					case *ast.IndexExpr:
						if id, ok := x.X.(*ast.Ident); ok {
							r = id.Name
						}
					case *ast.IndexListExpr:
						if id, ok := x.X.(*ast.Ident); ok {
							r = id.Name
						}
					}
				}
				if r != recv {
					continue
				}
				rel, _ := filepath.Rel(repo, fname)
				add := func(pos, end token.Pos, kind, from, to string) {
					out = append(out, &mutant{Func: key, File: rel, Line: fset.Position(pos).Line, Kind: kind, From: from, To: to,
						start: fset.Position(pos).Offset, end: fset.Position(end).Offset})
				}
				ast.Inspect(fd.Body, func(n ast.Node) bool {
					switch x := n.(type) {
					case *ast.BinaryExpr:
						for _, to := range opSwap[x.Op] {
							add(x.OpPos, x.OpPos+token.Pos(len(x.Op.String())), "operator", x.Op.String(), to)
						}
					case *ast.BasicLit:
						if x.Kind == token.INT && (x.Value == "0" || x.Value == "1" || x.Value == "2") {
							v := int(x.Value[0] - '0')
							add(x.Pos(), x.End(), "literal", x.Value, fmt.Sprint(v+1))
							if v > 0 {
								add(x.Pos(), x.End(), "literal", x.Value, fmt.Sprint(v-1))
							}
						}
					case *ast.IfStmt:
						add(x.Cond.Pos(), x.Cond.End(), "negate-condition", "cond", "!(cond)")
					case *ast.ExprStmt:
						add(x.Pos(), x.End(), "drop-statement", "stmt", "")
					case *ast.IncDecStmt:
						add(x.Pos(), x.End(), "drop-statement", "stmt", "")
						if x.Tok == token.INC {
							add(x.TokPos, x.TokPos+2, "operator", "++", "--")
						} else {
							add(x.TokPos, x.TokPos+2, "operator", "--", "++")
						}
					case *ast.AssignStmt:
						if x.Tok != token.DEFINE {
							add(x.Pos(), x.End(), "drop-statement", "stmt", "")
						}
					}
					return true
				})
			}
		}
	}
	sort.Slice(out, func(i, j int) bool {
		if out[i].start != out[j].start {
			return out[i].start < out[j].start
		}
		return out[i].To < out[j].To
	})
	if perFunc > 0 && len(out) > perFunc {
		// an even spread over the body
		var sel []*mutant
		for i := 0; i < perFunc; i++ {
			sel = append(sel, out[i*len(out)/perFunc])
		}
		out = sel
	}
	return out
}

func applyMutant(src []byte, m *mutant) []byte {
	seg := string(src[m.start:m.end])
	var repl string
	switch m.Kind {
	case "negate-condition":
		repl = "!(" + seg + ")"
	case "drop-statement":
		repl = ""
	default:
		repl = m.To
	}
	m.From = strings.TrimSpace(seg)
	if m.Kind == "negate-condition" {
		m.To = repl
	}
	out := append([]byte{}, src[:m.start]...)
	out = append(out, repl...)
	out = append(out, src[m.end:]...)
	return out
}

func runMutants(prop, repo, verifDir string, perFunc, workers int) int {
	_, code := runMutantsCapped(prop, repo, verifDir, perFunc, workers, 0, true)
	return code
}

// runMutantsCapped: maxTotal > 0 keeps an even sample of at most that many mutants (thorough tier); report=false is quiet.
func runMutantsCapped(prop, repo, verifDir string, perFunc, workers, maxTotal int, report bool) (map[string]interface{}, int) {
	cs, err := LoadContracts(repo)
	if err != nil {
		fmt.Println("ERROR loading contracts:", err)
		return nil, 2
	}
	type target struct{ pkg, key string }
	var targets []target
	seen := map[string]bool{}
	for _, k := range cs.Order {
		c := cs.Funcs[k]
		if c == nil || c.Trusted {
			continue
		}
		ok := false
		for _, p := range c.Props {
			if p == prop {
				ok = true
			}
		}
		key := c.Key
		if i := strings.Index(key, "#"); i >= 0 {
			key = key[:i]
		}
		if !ok || seen[c.Pkg+"."+key] {
			continue
		}
		seen[c.Pkg+"."+key] = true
		targets = append(targets, target{c.Pkg, key})
	}
	for _, p := range cs.Pairs {
		if p.Prop != prop {
			continue
		}
		i := strings.Index(p.Fork, ".")
		if i < 0 || seen[p.Fork] {
			continue
		}
		seen[p.Fork] = true
		targets = append(targets, target{p.Fork[:i], p.Fork[i+1:]})
	}
	var all []*mutant
	for _, t := range targets {
		dir := t.pkg
		if t.pkg == "typ" {
			dir = "."
		}
		all = append(all, collectMutants(repo, dir, t.key, perFunc)...)
	}
	if maxTotal > 0 && len(all) > maxTotal {
		var sel []*mutant
		for i := 0; i < maxTotal; i++ {
			sel = append(sel, all[i*len(all)/maxTotal])
		}
		all = sel
	}
	if report {
		fmt.Printf("%s: %d functions, %d mutants\n", prop, len(targets), len(all))
	}
	self, _ := os.Executable()
	jobs := make(chan *mutant)
	var wg sync.WaitGroup
	for w := 0; w < workers; w++ {
		wg.Add(1)
		go func(w int) {
			defer wg.Done()
			scratch, err := os.MkdirTemp("", "govc-mut-")
			if err != nil {
				return
			}
			defer os.RemoveAll(scratch)
			if out, err := exec.Command("rsync", "-a", "--exclude", ".git", repo+"/", scratch+"/").CombinedOutput(); err != nil {
				fmt.Println("rsync:", string(out))
				return
			}
			env := append(os.Environ(), "GOFLAGS=-mod=mod", "GOPROXY=off", "GOSUMDB=off", "GOTOOLCHAIN=local")
			for m := range jobs {
				path := filepath.Join(scratch, m.File)
				orig, err := os.ReadFile(filepath.Join(repo, m.File))
				if err != nil {
					m.Status = "error"
					continue
				}
				os.WriteFile(path, applyMutant(orig, m), 0o644)
				pkgDir := "./" + filepath.Dir(m.File)
				func() {
					defer os.WriteFile(path, orig, 0o644)
					ctx, cancel := context.WithTimeout(context.Background(), 180*time.Second)
					defer cancel()
					b := exec.CommandContext(ctx, "go", "build", pkgDir)
					b.Dir, b.Env = scratch, env
					if out, err := b.CombinedOutput(); err != nil {
						m.Status, m.Detail = "does-not-compile", truncate(string(out), 200)
						return
					}
					t := exec.CommandContext(ctx, "go", "test", "-vet=off", "-count=1", "-timeout", "90s", pkgDir)
					t.Dir, t.Env = scratch, env
					if _, err := t.CombinedOutput(); err != nil {
						m.Status = "rejected-by-tests"
						return
					}
					pkgName := filepath.Dir(m.File)
					if pkgName == "." {
						pkgName = "typ"
					}
					ctx2, cancel2 := context.WithTimeout(context.Background(), 300*time.Second)
					defer cancel2()
					c := exec.CommandContext(ctx2, self, "check", prop, "-repo", scratch, "-verif", verifDir, "-no-evidence", "-j", "4", "-func", pkgName+"."+m.Func)
					c.Dir, c.Env = scratch, env
					out, _ := c.CombinedOutput()
					if strings.Contains(string(out), "VIOLATION") {
						m.Status = "killed"
						for _, ln := range strings.Split(string(out), "\n") {
							if strings.HasPrefix(ln, "FAILED") {
								m.Detail = truncate(ln, 160)
								break
							}
						}
					} else if strings.Contains(string(out), "0 violations") {
						m.Status = "survived"
					} else {
						m.Status, m.Detail = "error", truncate(string(out), 200)
					}
				}()
			}
		}(w)
	}
	for _, m := range all {
		jobs <- m
	}
	close(jobs)
	wg.Wait()
	count := map[string]int{}
	for _, m := range all {
		count[m.Status]++
	}
	var survivors []string
	for _, m := range all {
		if m.Status == "survived" || m.Status == "error" {
			survivors = append(survivors, fmt.Sprintf("%s %s:%d %s %s: %q -> %q %s", strings.ToUpper(m.Status), m.File, m.Line, m.Func, m.Kind, m.From, m.To, m.Detail))
		}
	}
	summary := map[string]interface{}{"functions": len(targets), "mutants": len(all), "killed_by_contracts": count["killed"], "survived": count["survived"],
		"rejected_by_existing_tests": count["rejected-by-tests"], "not_compiling": count["does-not-compile"], "errors": count["error"], "survivors": survivors,
		"note": "first-order mutants of the functions under contract; survivors are equivalent mutants, non-terminating mutants or contract holes (see DESIGN.md 6.11); informational, does not affect the exit code"}
	if report {
		fmt.Printf("%s mutants: killed %d, survived %d, rejected by the package's tests %d, not compiling %d, errors %d\n", prop, count["killed"], count["survived"], count["rejected-by-tests"], count["does-not-compile"], count["error"])
		for _, s := range survivors {
			fmt.Println("  " + s)
		}
		os.MkdirAll(filepath.Join(verifDir, "mutation"), 0o755)
		data, _ := json.MarshalIndent(map[string]interface{}{"property": prop, "functions": len(targets), "counts": count, "mutants": all}, "", " ")
		os.WriteFile(filepath.Join(verifDir, "mutation", prop+".json"), data, 0o644)
	}
	return summary, 0
}
