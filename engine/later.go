package main

import (
	"go/types"
	"strings"

	"golang.org/x/tools/go/ssa"
)

// features filled in by later tiers


func (e *Engine) checkSharedWrite(st *State, fr *Frame, loc *Loc, pos string) {
	e.sharedAccess(st, fr, loc, true, pos)
}

func (e *Engine) havocGhost(st *State, w *writeSet)                       {}
// havocGhostNamed implements `assigns ghost(name)` (whole ghost variable) and `assigns ghost(name, ref)` (one row).
func (e *Engine) havocGhostNamed(st *State, spec string, se *SpecEnv) {
	parts := splitTop(spec, ',')
	name := strings.TrimSpace(parts[0])
	gv, ok := e.cs.GhostVars[name]
	if !ok {
		panic(unsupported("assigns ghost(%s): unknown ghost variable", name))
	}
	cur := e.ghostArray(st, gv, se)
	if len(parts) == 1 {
		st.ghost[name] = Val{T: nil, L: []Term{e.ctx.Fresh("ghost_"+name, cur.L[0].Sort)}, G: gv}
		return
	}
	ex, err := ParseSpecExpr(parts[1])
	if err != nil {
		panic(unsupported("assigns ghost(%s): %v", spec, err))
	}
	idx := e.evalSpec(ex, se).L[0]
	row := e.ctx.Fresh("ghostrow_"+name, arrElem(cur.L[0].Sort))
	st.ghost[name] = Val{T: nil, L: []Term{Store(cur.L[0], idx, row)}, G: gv}
}
func (e *Engine) scanExternWrites(callee *ssa.Function, cc *ssa.CallCommon, w *writeSet, env TEnv) {
	w.allocs = true
}

type externFn func(e *Engine, st *State, fr *Frame, callee *ssa.Function, args []Val, rt types.Type, pos string, k callCont)
type ifaceFn func(e *Engine, st *State, fr *Frame, recv Val, m *types.Func, args []Val, rt types.Type, pos string, k callCont)


func (e *Engine) evalExtCall(x *Expr, se *SpecEnv) (Val, bool) { return Val{}, false }

// evalPureGo: a side-effect free, single-path Go function or method of the
// repository used inside a specification. Its meaning is taken from the code
// (the body is executed symbolically on the spec state), never restated.
func (e *Engine) evalPureGo(x *Expr, se *SpecEnv) (Val, bool) {
	var fn *ssa.Function
	var args []Val
	var methodEnv TEnv
	if i := strings.Index(x.Name, "."); i >= 0 {
		recvName, mname := x.Name[:i], x.Name[i+1:]
		rv, ok := e.lookupName(recvName, se)
		if !ok {
			return Val{}, false
		}
		ms := e.prog.MethodSets.MethodSet(rv.T)
		var sel *types.Selection
		for j := 0; j < ms.Len(); j++ {
			if ms.At(j).Obj().Name() == mname {
				sel = ms.At(j)
			}
		}
		if sel == nil {
			panic(unsupported("spec call %s: no method %s on %s (method set size %d)", x.Name, mname, rv.T, ms.Len()))
		}
		fn, methodEnv = e.methodOf(sel, rv.T, se.env)
		args = append(args, rv)
	} else {
		p := e.pkgs[se.pkg]
		if p == nil {
			return Val{}, false
		}
		f, ok := p.Members[x.Name].(*ssa.Function)
		if !ok {
			return Val{}, false
		}
		fn = f
	}
	if fn == nil {
		return Val{}, false
	}
	for _, a := range x.Args {
		args = append(args, e.evalSpec(a, se))
	}
	st := se.st.Clone()
	st.dead = true
	var out *Val
	n := 0
	env := e.calleeEnv(fn, se.env)
	if methodEnv != nil {
		env = methodEnv
	}
	savedPaths := e.paths
	e.execFunction(st, fn, env, args, nil, &Frame{depth: 2, fn: nil, env: se.env}, nil, func(st *State, results []Val) {
		n++
		if len(results) == 1 {
			r := results[0]
			out = &r
		}
	})
	e.paths = savedPaths
	if n != 1 || out == nil {
		panic(unsupported("spec use of %s: not a single-path single-result function", x.Name))
	}
	if se.wantCell {
		// cellof(f(args)): the memory cell whose content f returns
		if len(e.lastRet) == 1 {
			if loc, ok := e.lastLoad[e.lastRet[0]]; ok && loc.Kind == LocElem && loc.Off == 0 {
				one := IntLit(1)
				return Val{T: types.NewSlice(loc.ElemT), L: []Term{loc.Base, loc.Idx, one, one}}, true
			}
		}
		panic(unsupported("cellof(%s): the function does not return the content of a slice element", x.Name))
	}
	return *out, true
}

// methodOf returns the (generic) body of a method selected on a possibly
// parameterised receiver type together with the type environment binding the
// receiver's type parameters.
func (e *Engine) methodOf(sel *types.Selection, recvT types.Type, env TEnv) (*ssa.Function, TEnv) {
	f := sel.Obj().(*types.Func)
	if fn := e.prog.MethodValue(sel); fn != nil {
		return fn, nil
	}
	orig := f.Origin()
	fn := e.prog.FuncValue(orig)
	if fn == nil {
		return nil, nil
	}
	menv := TEnv{}
	rt := recvT
	if pt, ok := rt.Underlying().(*types.Pointer); ok {
		rt = pt.Elem()
	}
	if nt, ok := rt.(*types.Named); ok {
		tps := fn.TypeParams()
		tas := nt.TypeArgs()
		for i := 0; tps != nil && tas != nil && i < tps.Len() && i < tas.Len(); i++ {
			menv[tps.At(i)] = resolve(tas.At(i), env)
		}
	}
	return fn, menv
}

// applyGhostSets performs the contract's ghost assignments at the function's exit. All right-hand sides see the
// ghost state as it was before the first assignment (simultaneous assignment); old(...) is the entry state.
func (e *Engine) applyGhostSets(st *State, c *Contract, se *SpecEnv) {
	if len(c.GhostSets) == 0 {
		return
	}
	before := st.Clone()
	for _, gs := range c.GhostSets {
		gv, ok := e.cs.GhostVars[gs.Name]
		if !ok {
			panic(unsupported("ghostset %s: unknown ghost variable", gs.Name))
		}
		bse := *se
		bse.st = before
		cur := e.ghostArray(before, gv, &bse)
		elemSort := func(arr Sort) Sort {
			// (Array Int X) -> X
			str := strings.TrimSuffix(strings.TrimPrefix(string(arr), "(Array Int "), ")")
			return Sort(str)
		}
		mk := func(rowSort Sort) Term {
			return e.ctx.DefArray("gset_"+gs.Name, SInt, elemSort(rowSort), func(k Term) Term {
				inner := bse.with(gs.Var, mkInt(k))
				v := e.evalSpec(gs.Body, inner)
				if len(v.L) != 1 {
					panic(unsupported("ghostset %s: the body must be a single scalar", gs.Name))
				}
				return v.L[0]
			})
		}
		var nw Term
		if gs.Row != nil {
			if gv.Dims != 2 {
				panic(unsupported("ghostset %s[row]: not a two-index ghost variable", gs.Name))
			}
			row := e.evalSpec(gs.Row, &bse).L[0]
			nw = Store(cur.L[0], row, mk(elemSort(cur.L[0].Sort)))
		} else {
			if gv.Dims != 1 {
				panic(unsupported("ghostset %s: not a one-index ghost variable", gs.Name))
			}
			nw = mk(cur.L[0].Sort)
		}
		st.ghost[gs.Name] = Val{T: nil, L: []Term{nw}, G: gv}
	}
}
