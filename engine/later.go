package main

import (
	"go/types"

	"golang.org/x/tools/go/ssa"
)

// features filled in by later tiers

func (e *Engine) makeChan(st *State, fr *Frame, x *ssa.MakeChan) Val { panic(unsupported("make chan")) }
func (e *Engine) chanLen(st *State, c Val) Term                      { panic(unsupported("len(chan)")) }
func (e *Engine) chanClose(st *State, fr *Frame, c Val, pos string)  { panic(unsupported("close")) }
func (e *Engine) execRecv(st *State, fr *Frame, x *ssa.UnOp, c Val)  { panic(unsupported("channel receive")) }
func (e *Engine) execSend(st *State, fr *Frame, x *ssa.Send, pos string) {
	panic(unsupported("channel send"))
}
func (e *Engine) execSelect(st *State, fr *Frame, x *ssa.Select, k callCont) {
	panic(unsupported("select"))
}
func (e *Engine) execGo(st *State, fr *Frame, g *ssa.Go) { panic(unsupported("go statement")) }

func (e *Engine) checkSharedWrite(st *State, fr *Frame, loc *Loc, pos string) {}

func (e *Engine) havocGhost(st *State, w *writeSet)                       {}
func (e *Engine) havocGhostNamed(st *State, name string, se *SpecEnv)      {}
func (e *Engine) scanExternWrites(callee *ssa.Function, cc *ssa.CallCommon, w *writeSet, env TEnv) {
	w.allocs = true
}

type externFn func(e *Engine, st *State, fr *Frame, callee *ssa.Function, args []Val, rt types.Type, pos string, k callCont)
type ifaceFn func(e *Engine, st *State, fr *Frame, recv Val, m *types.Func, args []Val, rt types.Type, pos string, k callCont)

func (e *Engine) ifaceModel(recv Val, m *types.Func) ifaceFn { return nil }

func (e *Engine) evalExtCall(x *Expr, se *SpecEnv) (Val, bool) { return Val{}, false }
func (e *Engine) evalPureGo(x *Expr, se *SpecEnv) (Val, bool)  { return Val{}, false }
