package main

// Go types -> flat vectors of SMT leaves.

import (
	"fmt"
	"go/types"
	"strings"
)

// TEnv maps type parameters to the types they stand for in the current frame
// (concrete class types, or the root function's abstract parameters).
type TEnv map[*types.TypeParam]types.Type

var typeCtx = types.NewContext()

// subst applies env to t.
func subst(t types.Type, env TEnv) types.Type {
	if t == nil {
		return t
	}
	switch x := t.(type) {
	case *types.TypeParam:
		if r, ok := env[x]; ok {
			return r
		}
		if c := coreOf(x); c != nil {
			return subst(c, env)
		}
		return t
	case *types.Slice:
		return types.NewSlice(subst(x.Elem(), env))
	case *types.Array:
		return types.NewArray(subst(x.Elem(), env), x.Len())
	case *types.Pointer:
		return types.NewPointer(subst(x.Elem(), env))
	case *types.Map:
		return types.NewMap(subst(x.Key(), env), subst(x.Elem(), env))
	case *types.Chan:
		return types.NewChan(x.Dir(), subst(x.Elem(), env))
	case *types.Tuple:
		var vs []*types.Var
		for i := 0; i < x.Len(); i++ {
			v := x.At(i)
			vs = append(vs, types.NewVar(v.Pos(), v.Pkg(), v.Name(), subst(v.Type(), env)))
		}
		return types.NewTuple(vs...)
	case *types.Signature:
		if x.TypeParams() != nil && x.TypeParams().Len() > 0 {
			return t
		}
		ps := subst(x.Params(), env).(*types.Tuple)
		rs := subst(x.Results(), env).(*types.Tuple)
		return types.NewSignatureType(nil, nil, nil, ps, rs, x.Variadic())
	case *types.Struct:
		var fs []*types.Var
		var tags []string
		for i := 0; i < x.NumFields(); i++ {
			f := x.Field(i)
			fs = append(fs, types.NewField(f.Pos(), f.Pkg(), f.Name(), subst(f.Type(), env), f.Embedded()))
			tags = append(tags, x.Tag(i))
		}
		return types.NewStruct(fs, tags)
	case *types.Named:
		ta := x.TypeArgs()
		if ta == nil || ta.Len() == 0 {
			return t
		}
		var args []types.Type
		changed := false
		for i := 0; i < ta.Len(); i++ {
			a := subst(ta.At(i), env)
			if a != ta.At(i) {
				changed = true
			}
			args = append(args, a)
		}
		if !changed {
			return t
		}
		inst, err := types.Instantiate(typeCtx, x.Origin(), args, false)
		if err != nil {
			return t
		}
		return inst
	case *types.Alias:
		return subst(types.Unalias(x), env)
	}
	return t
}

// coreOf returns the single underlying type of a type parameter's type set
// (e.g. []E for S ~[]E), or nil.
func coreOf(tp *types.TypeParam) types.Type {
	iface, ok := tp.Constraint().Underlying().(*types.Interface)
	if !ok {
		return nil
	}
	var found types.Type
	n := 0
	for i := 0; i < iface.NumEmbeddeds(); i++ {
		switch e := iface.EmbeddedType(i).(type) {
		case *types.Union:
			for j := 0; j < e.Len(); j++ {
				n++
				found = e.Term(j).Type()
			}
		default:
			if _, isIface := e.Underlying().(*types.Interface); !isIface {
				n++
				found = e
			}
		}
	}
	if n > 1 {
		// a union of channel types of one element type has a (directional) core type
		var elem types.Type
		dir := types.SendRecv
		allChan := true
		walk := func(t types.Type) {
			ct, ok := t.Underlying().(*types.Chan)
			if !ok {
				allChan = false
				return
			}
			if elem == nil {
				elem = ct.Elem()
			} else if !types.Identical(elem, ct.Elem()) {
				allChan = false
			}
			if ct.Dir() != types.SendRecv {
				dir = ct.Dir()
			}
		}
		for i := 0; i < iface.NumEmbeddeds(); i++ {
			switch e := iface.EmbeddedType(i).(type) {
			case *types.Union:
				for j := 0; j < e.Len(); j++ {
					walk(e.Term(j).Type())
				}
			default:
				if _, isIface := e.Underlying().(*types.Interface); !isIface {
					walk(e)
				}
			}
		}
		if allChan && elem != nil {
			return types.NewChan(dir, elem)
		}
	}
	if n == 1 {
		switch found.Underlying().(type) {
		case *types.Slice, *types.Map, *types.Pointer, *types.Chan, *types.Signature:
			return found.Underlying()
		}
	}
	return nil
}

// typeSetBasics flattens a constraint to the list of basic kinds it admits.
func typeSetBasics(t types.Type, out *[]types.Type, seen map[types.Type]bool) {
	if seen[t] {
		return
	}
	seen[t] = true
	switch x := t.(type) {
	case *types.Union:
		for i := 0; i < x.Len(); i++ {
			typeSetBasics(x.Term(i).Type(), out, seen)
		}
	case *types.Named:
		typeSetBasics(x.Underlying(), out, seen)
	case *types.Alias:
		typeSetBasics(types.Unalias(x), out, seen)
	case *types.Interface:
		for i := 0; i < x.NumEmbeddeds(); i++ {
			typeSetBasics(x.EmbeddedType(i), out, seen)
		}
	case *types.Basic:
		*out = append(*out, x)
	}
}

// resolve normalises a type under env: substitutes, and replaces type
// parameters that have a core type by that core type.
func resolve(t types.Type, env TEnv) types.Type {
	t = subst(t, env)
	t = types.Unalias(t)
	if tp, ok := t.(*types.TypeParam); ok {
		if c := coreOf(tp); c != nil {
			return resolve(c, env)
		}
	}
	return t
}

type Leaf struct {
	Path string
	Sort Sort
	GoT  types.Type // type of the leaf-bearing component (for int signedness etc.)
}

type Layouter struct {
	ctx     *Ctx
	bvMode  bool // integers are bit-vectors of their width
	cache   map[string][]Leaf
	typeIDs map[string]int
	anyAs   Sort // relational mode: the empty interface is one abstract value
}

func NewLayouter(ctx *Ctx, bv bool) *Layouter {
	return &Layouter{ctx: ctx, bvMode: bv, cache: map[string][]Leaf{}, typeIDs: map[string]int{}}
}

func intWidth(b *types.Basic) (w int, signed bool, ok bool) {
	switch b.Kind() {
	case types.Int8:
		return 8, true, true
	case types.Int16:
		return 16, true, true
	case types.Int32:
		return 32, true, true
	case types.Int64, types.Int:
		return 64, true, true
	case types.Uint8:
		return 8, false, true
	case types.Uint16:
		return 16, false, true
	case types.Uint32:
		return 32, false, true
	case types.Uint64, types.Uint, types.Uintptr:
		return 64, false, true
	case types.UntypedInt, types.UntypedRune:
		return 64, true, true
	}
	return 0, false, false
}

func isSignedInt(t types.Type) bool {
	if b, ok := t.Underlying().(*types.Basic); ok {
		_, s, ok := intWidth(b)
		return ok && s
	}
	return true
}

func typeKey(t types.Type) string {
	s := types.TypeString(t, func(p *types.Package) string { return p.Name() })
	// "<-chan T" and "[]chan T" must not collide after sanitising
	s = strings.ReplaceAll(s, "<-chan", "recvchan")
	s = strings.ReplaceAll(s, "chan<-", "sendchan")
	return sanitize(s)
}

// TypeID gives a stable small integer per dynamic type (for interface tags).
func (l *Layouter) TypeID(t types.Type) Term {
	if tp, ok := t.(*types.TypeParam); ok {
		// unknown dynamic type: a symbolic id
		c := l.ctx.Const("tid_"+tp.Obj().Name(), SInt)
		return c
	}
	k := typeKey(t)
	id, ok := l.typeIDs[k]
	if !ok {
		id = len(l.typeIDs) + 1
		l.typeIDs[k] = id
	}
	return IntLit(int64(1000 + id))
}

func (l *Layouter) basicSort(b *types.Basic) Sort {
	if b.Info()&types.IsBoolean != 0 {
		return SBool
	}
	if w, _, ok := intWidth(b); ok {
		// plain int (lengths, indices, counts) stays a mathematical integer even in bit-vector mode
		if l.bvMode && b.Kind() != types.Int && b.Kind() != types.UntypedInt && b.Kind() != types.UntypedRune {
			return BV(w)
		}
		return SInt
	}
	switch b.Kind() {
	case types.Float32:
		if l.bvMode {
			return Sort("(_ FloatingPoint 8 24)")
		}
		return l.ctx.DeclareSort("Float")
	case types.Float64, types.UntypedFloat:
		if l.bvMode {
			return Sort("(_ FloatingPoint 11 53)")
		}
		return l.ctx.DeclareSort("Float")
	case types.String, types.UntypedString:
		return l.ctx.DeclareSort("Str")
	case types.Complex64, types.Complex128, types.UntypedComplex:
		return l.ctx.DeclareSort("Cplx")
	case types.UnsafePointer:
		return SInt
	case types.UntypedNil:
		return SInt
	}
	return l.ctx.DeclareSort("U_" + sanitize(b.Name()))
}

// Leaves returns the flat layout of a resolved type.
func (l *Layouter) Leaves(t types.Type) []Leaf {
	key := typeKey(t)
	if tp, ok := t.(*types.TypeParam); ok {
		key = fmt.Sprintf("tp_%s_%p", tp.Obj().Name(), tp)
	}
	if r, ok := l.cache[key]; ok {
		return r
	}
	var out []Leaf
	switch x := t.(type) {
	case *types.TypeParam:
		if c := coreOf(x); c != nil {
			out = l.Leaves(c)
		} else if l.anyAs != "" {
			out = []Leaf{{"", l.anyAs, t}}
		} else {
			out = []Leaf{{"", l.ctx.DeclareSort("U_" + x.Obj().Name()), t}}
		}
	case *types.Alias:
		out = l.Leaves(types.Unalias(x))
	case *types.Named:
		if n := adtNameOf(x); n != "" {
			out = []Leaf{{"", Sort(n), t}}
			break
		}
		out = l.Leaves(x.Underlying())
		if len(out) == 1 {
			// keep the named type so signedness etc. come from the underlying basic
			out = []Leaf{{out[0].Path, out[0].Sort, out[0].GoT}}
		}
	case *types.Basic:
		out = []Leaf{{"", l.basicSort(x), t}}
	case *types.Pointer, *types.Map, *types.Chan, *types.Signature:
		out = []Leaf{{"", SInt, t}}
	case *types.Slice:
		out = []Leaf{{"base", SInt, t}, {"off", SInt, t}, {"len", SInt, t}, {"cap", SInt, t}}
	case *types.Interface:
		if l.anyAs != "" && x.NumMethods() == 0 {
			out = []Leaf{{"", l.anyAs, t}}
		} else {
			out = []Leaf{{"tag", SInt, t}, {"box", l.ctx.DeclareSort("Box"), t}}
		}
	case *types.Struct:
		for i := 0; i < x.NumFields(); i++ {
			for _, lf := range l.Leaves(x.Field(i).Type()) {
				p := x.Field(i).Name()
				if lf.Path != "" {
					p += "." + lf.Path
				}
				out = append(out, Leaf{p, lf.Sort, lf.GoT})
			}
		}
	case *types.Array:
		for i := int64(0); i < x.Len(); i++ {
			for _, lf := range l.Leaves(x.Elem()) {
				p := fmt.Sprintf("%d", i)
				if lf.Path != "" {
					p += "." + lf.Path
				}
				out = append(out, Leaf{p, lf.Sort, lf.GoT})
			}
		}
	case *types.Tuple:
		for i := 0; i < x.Len(); i++ {
			for _, lf := range l.Leaves(x.At(i).Type()) {
				p := fmt.Sprintf("r%d", i)
				if lf.Path != "" {
					p += "." + lf.Path
				}
				out = append(out, Leaf{p, lf.Sort, lf.GoT})
			}
		}
	default:
		panic(unsupported("layout of type %s (%T)", t, t))
	}
	l.cache[key] = out
	return out
}

// fieldRange returns the leaf offset and count of field i of struct st.
func (l *Layouter) fieldRange(st *types.Struct, i int) (off, n int) {
	for j := 0; j < i; j++ {
		off += len(l.Leaves(st.Field(j).Type()))
	}
	return off, len(l.Leaves(st.Field(i).Type()))
}

type Unsupported struct{ Msg string }

func (u Unsupported) Error() string { return "outside the modelled subset: " + u.Msg }

func unsupported(f string, a ...interface{}) Unsupported {
	return Unsupported{fmt.Sprintf(f, a...)}
}

func shortType(t types.Type) string {
	s := types.TypeString(t, func(p *types.Package) string { return p.Name() })
	return strings.ReplaceAll(s, "gopkg.in/typ.v4/", "")
}
