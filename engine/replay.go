package main

// Counterexample replay against the real code: the model of a failed
// obligation seeds a per-function public-API oracle (in /verif/replay) that is
// injected into the package with `go test -overlay` and run on the model's
// input and a small neighbourhood of it.

import (
	"context"
	"encoding/json"
	"fmt"
	"os"
	"os/exec"
	"path/filepath"
	"strings"
	"time"
)

var optRepo = "/repo"

var replayCache = map[string]string{}

var (
	replaySecs  = map[string]float64{}
	replayTotal float64
)

func replayCounterexample(prop string, r *Result, rp map[string]interface{}, verifDir string) bool {
	// obligation name: pkg.Func[class]/kind...
	name := r.Ob.Func
	class := ""
	if i := strings.Index(name, "["); i >= 0 {
		class = strings.TrimSuffix(name[i+1:], "]")
		name = name[:i]
	}
	dot := strings.Index(name, ".")
	if dot < 0 {
		return false
	}
	pkg, fn := name[:dot], name[dot+1:]
	if i := strings.Index(fn, "#"); i >= 0 {
		fn = fn[:i] // contract variant of the same function
	}
	oracle := filepath.Join(verifDir, "replay", pkg+".go.txt")
	src, err := os.ReadFile(oracle)
	if err != nil {
		rp["replay"] = "no oracle file for package " + pkg
		return false
	}
	common, _ := os.ReadFile(filepath.Join(verifDir, "replay", "common.go.txt"))
	tmp, err := os.MkdirTemp("", "govc-replay-")
	if err != nil {
		return false
	}
	defer os.RemoveAll(tmp)
	testFile := filepath.Join(tmp, "zz_verif_replay_test.go")
	os.WriteFile(testFile, append(append(src, '\n'), common...), 0o644)
	pkgDir := pkg
	if pkg == "typ" {
		pkgDir = "."
	}
	target := filepath.Join(optRepo, pkgDir, "zz_verif_replay_test.go")
	ov, _ := json.Marshal(map[string]interface{}{"Replace": map[string]string{target: testFile}})
	ovFile := filepath.Join(tmp, "overlay.json")
	os.WriteFile(ovFile, ov, 0o644)
	model := r.ModelKV
	if model == nil {
		model = map[string]string{}
	}
	req, _ := json.Marshal(map[string]interface{}{"func": fn, "obligation": r.Ob.Name, "model": model, "class": class})
	key := string(req)
	key = pkg + "|" + fn + "|" + class
	if strings.Contains(r.Ob.Kind, "shared") {
		key += "|race"
	}
	if out, ok := replayCache[key]; ok && (strings.Contains(out, "REPLAY-FAIL") || strings.Contains(out, "DATA RACE")) {
		rp["replay_output"] = out
		rp["replay"] = "confirmed on the real code (same failing input as a sibling obligation)"
		return true
	}
	if out, ok := replayCache[key]; ok && replaySecs[key] > 15 {
		// the same oracle already ran for a sibling obligation of this function, took long and confirmed nothing
		rp["replay_output"] = out
		rp["replay"] = "the oracle found no failing input (same oracle run as for a sibling obligation)"
		return false
	}
	if replayTotal > 420 {
		rp["replay"] = "not replayed: the replay time budget of this check (7 minutes) is used up"
		return false
	}
	t0 := time.Now()
	defer func() {
		d := time.Since(t0).Seconds()
		replaySecs[key] = d
		replayTotal += d
	}()
	ctx, cancel := context.WithTimeout(context.Background(), 120*time.Second)
	defer cancel()
	args := []string{"test", "-overlay", ovFile, "-vet=off", "-count=1", "-timeout", "60s", "-run", "^TestVerifReplay$", "./" + pkgDir}
	if strings.Contains(r.Ob.Kind, "shared") {
		args = append(args[:1], append([]string{"-race"}, args[1:]...)...)
	}
	cmd := exec.CommandContext(ctx, "go", args...)
	cmd.Dir = optRepo
	cmd.Env = append(os.Environ(), "GOFLAGS=-mod=mod", "GOPROXY=off", "GOSUMDB=off", "GOTOOLCHAIN=local", "VERIF_REPLAY="+string(req))
	out, _ := cmd.CombinedOutput()
	text := truncate(string(out), 3000)
	replayCache[key] = text
	rp["replay_cmd"] = "cd " + optRepo + " && VERIF_REPLAY='" + string(req) + "' go " + strings.Join(args, " ")
	rp["replay_output"] = text
	if strings.Contains(text, "REPLAY-FAIL") {
		for _, ln := range strings.Split(text, "\n") {
			if strings.HasPrefix(ln, "REPLAY-FAIL") {
				rp["failing_input"] = strings.TrimPrefix(ln, "REPLAY-FAIL ")
				fmt.Println("  replayed on the real code:", strings.TrimPrefix(ln, "REPLAY-FAIL "))
				break
			}
		}
		rp["replay"] = "confirmed on the real code"
		return true
	}
	if strings.Contains(text, "panic: send on closed channel") || strings.Contains(text, "panic: close of closed channel") {
		// a goroutine of the real code panicked and killed the test process
		what := "panic: send on closed channel"
		if strings.Contains(text, "panic: close of closed channel") {
			what = "panic: close of closed channel"
		}
		scen := ""
		for _, ln := range strings.Split(text, "\n") {
			if strings.HasPrefix(ln, "REPLAY-SCENARIO ") {
				scen = strings.TrimPrefix(ln, "REPLAY-SCENARIO ") + ": "
			}
		}
		rp["failing_input"] = scen + "the process died with " + what
		fmt.Println("  replayed on the real code:", rp["failing_input"])
		rp["replay"] = "confirmed on the real code (process panic)"
		return true
	}
	if strings.Contains(text, "fatal error: ") && strings.Contains(text, "FAIL") {
		for _, ln := range strings.Split(text, "\n") {
			if strings.HasPrefix(strings.TrimSpace(ln), "fatal error: ") {
				rp["failing_input"] = "the public-API oracle run on the real code crashed the process: " + strings.TrimSpace(ln)
				break
			}
		}
		fmt.Println("  replayed on the real code:", rp["failing_input"])
		rp["replay"] = "confirmed on the real code (the oracle, which passes on the unchanged tree, crashed)"
		return true
	}
	if strings.Contains(text, "panic: ") && strings.Contains(text, "FAIL") {
		// the oracle passes on the unchanged tree (tools/oracle_selfcheck.sh); here the code under test panicked
		for _, ln := range strings.Split(text, "\n") {
			if strings.HasPrefix(strings.TrimSpace(ln), "panic: ") {
				rp["failing_input"] = "the public-API oracle run on the real code panicked: " + strings.TrimSpace(ln)
				break
			}
		}
		fmt.Println("  replayed on the real code:", rp["failing_input"])
		rp["replay"] = "confirmed on the real code (the oracle, which passes on the unchanged tree, panicked)"
		return true
	}
	if strings.Contains(text, "WARNING: DATA RACE") {
		// the race detector observed the unsynchronised access on the real code
		rp["failing_input"] = "go test -race reports a DATA RACE in " + fn + " under concurrent callers"
		for _, ln := range strings.Split(text, "\n") {
			if strings.Contains(ln, "/repo/") && strings.Contains(ln, ".go:") {
				rp["failing_input"] = rp["failing_input"].(string) + ": " + strings.TrimSpace(ln)
				break
			}
		}
		fmt.Println("  replayed on the real code:", rp["failing_input"])
		rp["replay"] = "confirmed on the real code by the race detector"
		return true
	}
	rp["replay"] = "the oracle found no failing input near the model (or no oracle exists for this function)"
	return false
}

// runBounded runs a bounded stand-in (TestVerifBounded of the package's replay file) on the real code.
func runBounded(b BoundedCheck, tier string, verifDir string) (ok bool, summary string) {
	bound := b.Quick
	if tier == "thorough" {
		bound = b.Thorough
	}
	src, err := os.ReadFile(filepath.Join(verifDir, "replay", b.Pkg+".go.txt"))
	if err != nil {
		return false, "no replay file for package " + b.Pkg
	}
	common, _ := os.ReadFile(filepath.Join(verifDir, "replay", "common.go.txt"))
	tmp, err := os.MkdirTemp("", "govc-bounded-")
	if err != nil {
		return false, err.Error()
	}
	defer os.RemoveAll(tmp)
	testFile := filepath.Join(tmp, "zz_verif_replay_test.go")
	os.WriteFile(testFile, append(append(src, '\n'), common...), 0o644)
	target := filepath.Join(optRepo, b.Pkg, "zz_verif_replay_test.go")
	ov, _ := json.Marshal(map[string]interface{}{"Replace": map[string]string{target: testFile}})
	ovFile := filepath.Join(tmp, "overlay.json")
	os.WriteFile(ovFile, ov, 0o644)
	// a changed implementation can deadlock the stand-in (e.g. a panic while holding a mutex): bounded time
	limit := "150s"
	if tier == "thorough" {
		limit = "20m"
	}
	ctx, cancel := context.WithTimeout(context.Background(), 25*time.Minute)
	defer cancel()
	cmd := exec.CommandContext(ctx, "go", "test", "-overlay", ovFile, "-vet=off", "-count=1", "-timeout", limit, "-v", "-run", "^TestVerifBounded$", "./"+b.Pkg)
	cmd.Dir = optRepo
	cmd.Env = append(os.Environ(), "GOFLAGS=-mod=mod", "GOPROXY=off", "GOSUMDB=off", "GOTOOLCHAIN=local", fmt.Sprintf("VERIF_BOUND=%d", bound), "VERIF_BOUNDED_PROP="+b.Prop, "VERIF_BOUNDED_DESC="+b.Desc)
	out, _ := cmd.CombinedOutput()
	for _, ln := range strings.Split(string(out), "\n") {
		if strings.HasPrefix(ln, "BOUNDED-OK") {
			return true, fmt.Sprintf("%s (bound %d): %s", b.Desc, bound, strings.TrimPrefix(ln, "BOUNDED-OK "))
		}
		if strings.HasPrefix(ln, "BOUNDED-FAIL") {
			return false, strings.TrimPrefix(ln, "BOUNDED-FAIL ")
		}
	}
	if strings.Contains(string(out), "panic: test timed out") {
		return false, b.Desc + ": the stand-in did not finish within " + limit + " (deadlock or livelock in the code under test)"
	}
	if i := strings.Index(string(out), "panic: "); i >= 0 {
		return false, b.Desc + ": the code under test crashed: " + truncate(string(out)[i:], 200)
	}
	if i := strings.Index(string(out), "fatal error: "); i >= 0 {
		return false, b.Desc + ": the code under test crashed: " + truncate(string(out)[i:], 200)
	}
	return false, "bounded check did not run: " + truncate(string(out), 600)
}
