package main

// Counterexample replay against the real code (filled in below per property).

func replayCounterexample(prop string, r *Result, rp map[string]interface{}, verifDir string) bool {
	return false
}
