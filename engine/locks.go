package main

// Lock-protected state, goroutine spawns and WaitGroups in atomic mode (PubSub, C10).
//
// A contract may declare THE lock of its receiver:   opt lock o.mutex
//   opt guarded subs        fields of the receiver (and every backing array that existed before the call)
//                           that may only be read while holding the lock (R or W) and written while holding W
//   lockinv <formula>       invariant of the guarded state: ASSUMED when the lock is acquired (or held on entry),
//                           PROVED when the write lock is released
//   opt entryheld R|W       the function is only called with the lock held by its caller: assumed at entry,
//                           an obligation at every call site, and impossible to satisfy for a `go` statement
//                           (a new goroutine holds no lock): obligation `go-unprotected`
//   opt chanowner           channels made by this method get the ghost owner chowner(c) = ref(receiver)
// While the lock is held (R or W) interference cannot close a channel owned by the receiver: every close in the
// package is under the write lock of the owner (obligation `close-protected` at each close).
//
// sync.Mutex / sync.RWMutex operations are actions (ASSUMED semantics); unlocking a lock that is not held is an
// obligation (`unlock-of-unlocked`), as is returning with a lock still held (`lock-balance`).
// `go f(args)`: f's requires are an obligation (`go-pre`), the spawn is recorded in the call log `go_<f>`,
// and the new goroutine's own actions are interference. sync.WaitGroup Add/Done/Wait are actions.

import (
	"sort"
	"fmt"
	"go/types"
	"strings"

	"golang.org/x/tools/go/ssa"
)

func (e *Engine) lockExpr() string {
	if e.rootC == nil || len(e.rootC.Extra["lock"]) == 0 {
		return ""
	}
	return strings.TrimSpace(e.rootC.Extra["lock"][0])
}

// lockRef: the reference of the receiver's declared lock (evaluated in the entry state).
func (e *Engine) lockRef() (Term, bool) {
	src := e.lockExpr()
	if src == "" || e.rootFr == nil {
		return Term{}, false
	}
	ex, err := ParseSpecExpr("addr(" + src + ")")
	if err != nil {
		panic(unsupported("opt lock %q: %v", src, err))
	}
	se := e.specEnv(e.entry, e.entry, e.rootFr)
	se.vars = e.params
	return e.evalSpec(ex, se).L[0], true
}

func (e *Engine) holds(st *State, lock Term, write bool) bool {
	if st.held["W:"+lock.S] {
		return true
	}
	return !write && st.held["R:"+lock.S]
}

func (e *Engine) holdsDeclared(st *State, write bool) bool {
	l, ok := e.lockRef()
	return ok && e.holds(st, l, write)
}

func (e *Engine) isGuardedField(field string) bool {
	if e.rootC == nil {
		return false
	}
	for _, l := range e.rootC.Extra["guarded"] {
		for _, f := range strings.Fields(l) {
			if f == field || strings.HasSuffix(field, "."+f) {
				return true
			}
		}
	}
	return false
}

// assumeLockInv / proveLockInv
func (e *Engine) assumeLockInv(st *State) {
	if e.rootC == nil || e.rootFr == nil {
		return
	}
	for _, c := range e.rootC.LockInv {
		se := e.specEnv(st, st, e.rootFr)
		se.vars = e.params
		st.Assume(e.evalBool(c.E, se))
	}
}

func (e *Engine) proveLockInv(st *State, where string) {
	if e.rootC == nil || e.rootFr == nil {
		return
	}
	for i, c := range e.rootC.LockInv {
		se := e.specEnv(st, st, e.rootFr)
		se.vars = e.params
		lab := c.Label
		if lab == "" {
			lab = fmt.Sprint(i)
		}
		e.obligation(st, "lockinv", lab+"@"+where, e.evalBool(c.E, se), "the invariant of the lock-protected state holds when the write lock is released: "+c.Src)
	}
}

// lockAction wraps the mutex primitives with held-lock tracking.
func (e *Engine) lockAction(kind string) externFn {
	return func(e *Engine, st *State, fr *Frame, callee *ssa.Function, args []Val, rt types.Type, pos string, k callCont) {
		obj := args[0]
		key := obj.L[0].S
		declared, hasDecl := e.lockRef()
		isDeclared := hasDecl && declared.S == key
		switch kind {
		case "Unlock":
			e.obligation(st, "unlock-of-unlocked", pos, mkBoolTerm(st.held["W:"+key] || !e.tracksLocks()), "Unlock of a mutex this call does not hold write-locked")
			if isDeclared {
				e.proveLockInv(st, pos)
			}
			if e.rootC != nil && len(e.rootC.Extra["lockhavoc"]) > 0 && e.rootFr != nil {
				// what this call assumes of the others when it takes the mutex, it owes them when it releases it
				se := e.specEnv(st, e.oldOf(st), e.rootFr)
				se.vars = e.params
				for i, r := range e.rootC.Rely {
					e.obligation(st, "guarantee", fmt.Sprintf("rely%d@%s", i, pos), e.evalBool(r.E, se), "the rely holds again when the mutex is released: "+r.Src)
				}
			}
		case "RUnlock":
			e.obligation(st, "unlock-of-unlocked", pos, mkBoolTerm(st.held["R:"+key] || !e.tracksLocks()), "RUnlock of a mutex this call does not hold read-locked")
		case "Lock", "RLock":
			if st.held["W:"+key] || st.held["R:"+key] {
				e.obligation(st, "self-deadlock", pos, False, "acquiring a lock this call already holds")
			}
			if st.held["released:"+key] && isDeclared {
				panic(unsupported("the declared lock is acquired a second time in one call (guarded state would have to be havocked)"))
			}
		}
		e.primitiveAction(st, fr, kind, obj, args[1:], rt, func(st *State, fr *Frame, res Val) {
			st.held = copyHeld(st.held)
			switch kind {
			case "Lock":
				st.held["W:"+key] = true
			case "RLock":
				st.held["R:"+key] = true
			case "Unlock":
				delete(st.held, "W:"+key)
				st.held["released:"+key] = true
			case "RUnlock":
				delete(st.held, "R:"+key)
				st.held["released:"+key] = true
			case "TryLock", "TryRLock":
				// both outcomes
				s2 := st.Clone()
				fr2 := fr.cloneForPath()
				s2.path = append(s2.path, "L")
				s2.Assume(res.L[0])
				s2.held = copyHeld(s2.held)
				if kind == "TryLock" {
					s2.held["W:"+key] = true
				} else {
					s2.held["R:"+key] = true
				}
				if isDeclared {
					e.assumeLockInv(s2)
				}
				k(s2, fr2, res)
				st.path = append(st.path, "l")
				st.Assume(Not(res.L[0]))
				k(st, fr, res)
				return
			}
			if isDeclared && (kind == "Lock" || kind == "RLock") {
				e.assumeLockInv(st)
			}
			if kind == "Lock" && e.rootC != nil && len(e.rootC.Extra["lockhavoc"]) > 0 && fr != nil {
				e.lockHavoc(st, fr)
			}
			k(st, fr, res)
		}, nil)
	}
}

// lockHavoc (`opt lockhavoc on`): interference at lock acquisition. Everything other goroutines may have done before
// this call got the mutex is modelled by forgetting every heap, map and the allocation counter and assuming the
// contract's `rely` clauses (the shared structure's invariant) in the new state; the path's "old" state is re-based
// here, so the ensures speak about what the call does from this moment on. Values read BEFORE the lock are stale:
// code that keeps using them (instead of re-reading under the lock) fails the ensures.
func (e *Engine) lockHavoc(st *State, fr *Frame) {
	// materialise every heap that has been looked at so far (reads do not enter st.objHeap): all of them are shared
	// memory that another goroutine may have written
	e.ctx.mu.Lock()
	decls := append([]Decl(nil), e.ctx.decls...)
	e.ctx.mu.Unlock()
	for _, d := range decls {
		if !strings.HasSuffix(d.Name, "_0") || !strings.HasPrefix(d.Text, "(declare-const "+d.Name+" ") {
			continue
		}
		key := strings.TrimSuffix(d.Name, "_0")
		sort := Sort(strings.TrimSuffix(strings.TrimPrefix(d.Text, "(declare-const "+d.Name+" "), ")"))
		switch {
		case strings.HasPrefix(key, "HO_"):
			if _, ok := st.objHeap[key]; !ok {
				st.objHeap[key] = Term{d.Name, sort}
			}
		case strings.HasPrefix(key, "HS_"):
			if _, ok := st.sliceHeap[key]; !ok {
				st.sliceHeap[key] = Term{d.Name, sort}
			}
		}
	}
	prev := st.Clone()
	e.havocAllHeaps(st)
	e.havocMaps(st)
	// memory this call allocated itself (an escaping parameter's cell, a value boxed for the map) is not yet visible
	// to anybody else: it keeps its contents
	for _, k := range sortedKeys(st.objHeap) {
		cur, was := st.objHeap[k], prev.objHeap[k]
		if was.S == "" || cur.S == was.S {
			continue
		}
		qr := e.allocID(Term{"q_r", SInt})
		st.Assume(T(SBool, "(forall ((q_r Int)) (! (=> (<= %s %s) (= (select %s q_r) (select %s q_r))) :pattern ((select %s q_r))))", e.next0.S, qr.S, cur.S, was.S, cur.S))
	}
	for _, k := range sortedKeys(st.sliceHeap) {
		cur, was := st.sliceHeap[k], prev.sliceHeap[k]
		if was.S == "" || cur.S == was.S {
			continue
		}
		st.Assume(T(SBool, "(forall ((q_b Int)) (! (=> (<= %s q_b) (= (select %s q_b) (select %s q_b))) :pattern ((select %s q_b))))", e.next0.S, cur.S, was.S, cur.S))
	}
	nn := e.ctx.Fresh("next_lk", SInt)
	st.Assume(Le(st.next, nn))
	st.next = nn
	se := e.specEnv(st, prev, e.rootFr)
	se.vars = e.params
	for _, r := range e.rootC.Rely {
		st.Assume(e.evalBool(r.E, se))
	}
	st.base = nil
	b := st.Clone()
	st.base = b
	e.note("opt lockhavoc: interference is modelled at the acquisition of the mutex only (not between other atomic steps)")
}

// tracksLocks: lock bookkeeping obligations only where a lock is declared (other atomic-mode contracts describe
// lock/unlock pairs through their action log).
func (e *Engine) tracksLocks() bool { return e.lockExpr() != "" }

// entryHeld: `opt entryheld R|W` at the root.
func (e *Engine) entryHeld(st *State) {
	if e.rootC == nil || len(e.rootC.Extra["entryheld"]) == 0 {
		return
	}
	l, ok := e.lockRef()
	if !ok {
		panic(unsupported("opt entryheld needs opt lock"))
	}
	mode := strings.TrimSpace(e.rootC.Extra["entryheld"][0])
	st.held = copyHeld(st.held)
	st.held[mode+":"+l.S] = true
	st.held["entry:"+mode+":"+l.S] = true
	e.assumeLockInv(st)
}

// lockBalance: at return no lock acquired by this call is still held.
func (e *Engine) lockBalance(st *State) {
	if !e.tracksLocks() {
		return
	}
	var hk []string
	for k := range st.held {
		hk = append(hk, k)
	}
	sort.Strings(hk)
	for _, k := range hk {
		v := st.held[k]
		if !v || !(strings.HasPrefix(k, "W:") || strings.HasPrefix(k, "R:")) {
			continue
		}
		if st.held["entry:"+k] {
			continue
		}
		e.obligation(st, "lock-balance", "return", False, "the call returns while still holding "+k)
	}
	for _, k := range hk {
		if strings.HasPrefix(k, "entry:") && !st.held[strings.TrimPrefix(k, "entry:")] {
			e.obligation(st, "lock-balance", "return", False, "the call released a lock of its caller: "+k)
		}
	}
}

// calleeEntryHeld: a callee whose contract says `opt entryheld M` is called: the caller must hold the lock.
func (e *Engine) calleeEntryHeld(st *State, c *Contract, key, pos string, spawned bool) {
	if len(c.Extra["entryheld"]) == 0 {
		return
	}
	mode := strings.TrimSpace(c.Extra["entryheld"][0])
	if spawned {
		e.obligation(st, "go-unprotected", key+"@"+pos, False, "the spawned function needs its creator's lock ("+mode+") for its whole run, but a new goroutine holds no lock and outlives the critical section")
		return
	}
	ok := e.holdsDeclared(st, mode == "W")
	e.obligation(st, "call-held", key+"@"+pos, mkBoolTerm(ok), "the callee requires the receiver's lock to be held ("+mode+")")
}

// guardedAccess decides a plain access to lock-guarded memory; returns true when the access was handled.
func (e *Engine) guardedAccess(st *State, loc *Loc, write bool, pos string) bool {
	if e.lockExpr() == "" {
		return false
	}
	kind := "shared-read"
	if write {
		kind = "shared-write"
	}
	switch loc.Kind {
	case LocObj:
		field := e.fieldName(loc)
		if !e.isGuardedField(field) {
			return false
		}
		recv, ok := e.params["this"]
		if !ok {
			return false
		}
		fresh := Ge(e.allocID(loc.Ref), e.next0)
		if e.holdsDeclared(st, write) {
			// the receiver's guarded field, or a fresh object's
			e.obligation(st, kind, field+"@"+pos, Or(fresh, Eq(loc.Ref, recv.L[0])), "lock-guarded field of another object accessed")
		} else {
			e.obligation(st, kind, field+"@"+pos, fresh, "lock-guarded field accessed without holding the lock")
		}
		return true
	case LocElem:
		fresh := Ge(loc.Base, e.next0)
		if e.holdsDeclared(st, write) {
			return true
		}
		e.obligation(st, kind, "elems@"+pos, fresh, "element of a backing array shared with other goroutines accessed without holding the lock")
		return true
	}
	return false
}

// guardedArrayWrite: append/copy writing into a backing array.
func (e *Engine) guardedArrayWrite(st *State, base Term, pos string) {
	if !e.atomicMode() || e.lockExpr() == "" || st.dead {
		return
	}
	if e.holdsDeclared(st, true) {
		return
	}
	e.obligation(st, "shared-write", "elems@"+pos, Ge(base, e.next0), "backing array shared with other goroutines written without holding the write lock")
}

// ownedChannelsStable: while the declared lock is held, interference cannot close the receiver's channels.
func (e *Engine) ownedChannelsStable(st *State, oldClosed, newClosed Term) {
	if e.lockExpr() == "" {
		return
	}
	recv, ok := e.params["this"]
	if !ok || !e.holdsDeclared(st, false) {
		return
	}
	st.Assume(T(SBool, "(forall ((q_c Int)) (! (=> (= (chowner q_c) %s) (= (select %s q_c) (select %s q_c))) :pattern ((select %s q_c))))", recv.L[0].S, newClosed.S, oldClosed.S, newClosed.S))
	e.ctx.App("chowner", SInt, IntLit(0))
}

func (e *Engine) chOwner(c Term) Term { return e.ctx.App("chowner", SInt, c) }

// closeProtected: the obligation at every close in a contract that declares a lock.
func (e *Engine) closeProtected(st *State, c Term, pos string) {
	if e.lockExpr() == "" || !e.atomicMode() {
		return
	}
	recv, ok := e.params["this"]
	if !ok {
		return
	}
	e.obligation(st, "close-protected", pos, And(mkBoolTerm(e.holdsDeclared(st, true)), Eq(e.chOwner(c), recv.L[0])), "a channel is closed only under the write lock of the PubSub that owns it")
}

// execGo: `go f(args)`.
func (e *Engine) execGo(st *State, fr *Frame, g *ssa.Go) {
	cc := g.Common()
	pos := posOf(fr.fn, g.Pos())
	if cc.IsInvoke() {
		panic(unsupported("go statement on an interface method"))
	}
	var args []Val
	for _, a := range cc.Args {
		args = append(args, e.operand(st, fr, a))
	}
	callee, ok := cc.Value.(*ssa.Function)
	if !ok {
		panic(unsupported("go statement on a function value"))
	}
	c := e.contractFor(callee)
	if c == nil {
		panic(unsupported("go %s: the spawned function needs a contract", callee.Name()))
	}
	key := e.contractKey(callee)
	e.callees[key] = true
	env := e.calleeEnv(callee, fr.env)
	vars := e.bindParams(callee, args)
	cfr := &Frame{fn: bodyOf(callee), env: env, regs: map[ssa.Value]Val{}, names: map[string]NameBinding{}, parent: fr, depth: fr.depth + 1}
	for n, v := range vars {
		cfr.names[n] = NameBinding{V: v}
	}
	se := &SpecEnv{e: e, st: st, old: st, fr: cfr, vars: vars, env: env, pkg: c.Pkg}
	e.bindLets(c, se)
	for i, r := range c.Requires {
		lab := r.Label
		if lab == "" {
			lab = fmt.Sprint(i)
		}
		e.obligation(st, "go-pre", key+"."+lab+"@"+pos, e.evalBool(r.E, se), r.Src)
	}
	e.calleeEntryHeld(st, c, key, pos, true)
	e.appendLog(st, "go_"+shortFuncName(callee), append(args[:len(args):len(args)], e.loopIters(fr)...), Val{T: types.NewTuple()})
}

// logCall: `opt logcalls f g`: calls of the named functions are recorded in the call log of that name.
func (e *Engine) logCall(st *State, fr *Frame, callee *ssa.Function, args []Val) {
	if e.rootC == nil {
		return
	}
	for _, l := range e.rootC.Extra["logcalls"] {
		for _, n := range strings.Fields(l) {
			if n == shortFuncName(callee) {
				e.appendLog(st, n, append(args[:len(args):len(args)], e.loopIters(fr)...), Val{T: types.NewTuple()})
			}
		}
	}
}

func (e *Engine) inlineCall(callee *ssa.Function) bool {
	if e.rootC == nil {
		return false
	}
	for _, l := range e.rootC.Extra["inlinecalls"] {
		for _, n := range strings.Fields(l) {
			if n == shortFuncName(callee) {
				return true
			}
		}
	}
	return false
}

func init() {
	for _, m := range []string{"Lock", "Unlock", "TryLock"} {
		externModels["(*sync.Mutex)."+m] = (*Engine)(nil).lockAction(m)
	}
	for _, m := range []string{"Lock", "Unlock", "TryLock", "RLock", "RUnlock", "TryRLock"} {
		externModels["(*sync.RWMutex)."+m] = (*Engine)(nil).lockAction(m)
	}
	wg := func(fn, kind string) {
		externModels[fn] = func(e *Engine, st *State, fr *Frame, callee *ssa.Function, args []Val, rt types.Type, pos string, k callCont) {
			e.primitiveAction(st, fr, kind, args[0], args[1:], rt, k, nil)
		}
	}
	wg("(*sync.WaitGroup).Add", "WGAdd")
	wg("(*sync.WaitGroup).Done", "WGDone")
	wg("(*sync.WaitGroup).Wait", "WGWait")
}

// shortFuncName: the source name of a function or method without type arguments.
func shortFuncName(f *ssa.Function) string {
	n := bodyOf(f).Name()
	if i := strings.Index(n, "["); i >= 0 {
		n = n[:i]
	}
	return n
}

// loopIters: for every loop of the root function (by ordinal) the index of the element its range statement is
// currently visiting (rangeindex + 1), or -1 when the call site is not inside that loop. Recorded with every logged
// call as ghost arguments (spec: logiter(f, loop, k)), so that contracts of nested fan-out loops stay linear.
func (e *Engine) loopIters(fr *Frame) []Val {
	root := e.rootFr
	if root == nil {
		return nil
	}
	loops := e.loopsOf(root.fn)
	out := make([]Val, len(loops))
	for i := range out {
		out[i] = mkInt(IntLit(-1))
	}
	// the frame executing inside the root function (the call may sit in an inlined callee: use the root frame)
	f := fr
	for f != nil && f.fn != root.fn {
		f = f.parent
	}
	if f == nil || f.cur == nil {
		return out
	}
	for _, li := range loops {
		if !li.blocks[f.cur] || li.ord >= len(out) {
			continue
		}
		if nb, ok := f.names[fmt.Sprintf("rangeindex_%d", li.ord)]; ok && len(nb.V.L) == 1 {
			out[li.ord] = mkInt(Add(nb.V.L[0], IntLit(1)))
		}
	}
	return out
}

func (e *Engine) numRootLoops() int {
	if e.rootFr == nil {
		return 0
	}
	return len(e.loopsOf(e.rootFr.fn))
}
