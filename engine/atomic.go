package main

// Concurrent-wrapper ("atomic") mode. A method under `mode atomic` is a thin wrapper around primitives whose
// ATOMIC SPECIFICATION IS ASSUMED (sync2.Map's trusted contract, sync.Mutex/RWMutex, sync/atomic.Value,
// sync.Pool, sync.Once). Every call of such a primitive is an *action*, recorded in the path's action log.
// Immediately before every action the shared abstract state is havocked (arbitrary interference by other
// goroutines), so nothing learnt from one action survives to the next. Obligations:
//   * `ensures` clauses are evaluated AT the linearization action (pre = state just before it, after
//     interference; post = state just after it), not between function entry and exit;
//   * `exit_ensures` clauses talk about the action log itself (how many actions, which, on which object, with
//     which arguments, and how the method's result derives from their results);
//   * no plain load or store touches memory that existed before the call (it is shared with other goroutines),
//     unless the field is declared immutable after initialisation or is protected by a sync.Once region.

import (
	"sort"
	"fmt"
	"go/types"
	"strings"

	"golang.org/x/tools/go/ssa"
)

type Action struct {
	Kind string
	Obj  Term
	Args []Val
	Res  []Val
	Pre  *State
	Post *State
}

var actionKinds = map[string]int{}

func kindCode(k string) int {
	if c, ok := actionKinds[k]; ok {
		return c
	}
	c := 100 + len(actionKinds)
	actionKinds[k] = c
	return c
}

func (e *Engine) atomicMode() bool { return e.rootC != nil && e.rootC.Mode == "atomic" }

// interfere: other goroutines may have changed any shared abstract state.
func (e *Engine) interfere(st *State) {
	e.havocMaps(st)
	if len(st.chanHeap) > 0 {
		e.chanInterfere(st, nil)
	}
	var gnames []string
	for name, gv := range e.cs.GhostVars {
		// only the ghost state of the package under verification (and in a fixed order: the generated script must
		// be the same on every run)
		if e.rootC != nil && gv.Pkg != "" && gv.Pkg != e.rootC.Pkg {
			continue
		}
		gnames = append(gnames, name)
	}
	sort.Strings(gnames)
	for _, name := range gnames {
		gv := e.cs.GhostVars[name]
		if v, ok := st.ghost[name]; ok {
			st.ghost[name] = Val{T: nil, L: []Term{e.ctx.Fresh("ghost_if_"+name, v.L[0].Sort)}, G: gv}
		} else if e.rootFr != nil {
			se := e.specEnv(st, st, e.rootFr)
			func() {
				defer func() { recover() }()
				st.ghost[name] = Val{T: nil, L: []Term{e.ctx.Fresh("ghost_if_"+name, e.ghostSort(gv, se))}, G: gv}
			}()
		}
	}
	e.assumeRely(st)
}

func (e *Engine) recordAction(st *State, a *Action) {
	st.actionLog = append(st.actionLog[:len(st.actionLog):len(st.actionLog)], a)
	// guarantee: this action maintains the declared invariant of the shared state
	if e.rootC != nil && e.atomicMode() && a.Post != nil {
		for i, r := range e.rootC.Rely {
			se := e.specEnv(a.Post, a.Pre, e.rootFr)
			e.obligation(st, "guarantee", fmt.Sprintf("%d.after-%s", i, a.Kind), e.evalBool(r.E, se), "the action maintains the shared-state invariant: "+r.Src)
		}
	}
}

// cellHavoc (`opt cellhavoc on`, sequential mode): interference on the cell an atomic pointer operation is about to
// touch. Other goroutines may have changed it since this call last looked: its content is forgotten, except that the
// contract's `rely` clauses hold between the content before (old) and after. Memory this call allocated itself is not
// shared yet and is left alone. Reports whether the option is on.
func (e *Engine) cellHavoc(st *State, fr *Frame, addr Val) bool {
	if e.rootC == nil || len(e.rootC.Extra["cellhavoc"]) == 0 || e.rootFr == nil {
		return false
	}
	loc := e.locOf(addr)
	prev := st.Clone()
	cur := e.loadLoc(st, loc)
	nv := e.freshVal("cell_if", cur.T)
	shared := Lt(e.allocID(addr.L[0]), e.next0)
	for i := range nv.L {
		nv.L[i] = Ite(shared, nv.L[i], cur.L[i])
	}
	e.storeLoc(st, loc, nv)
	se := e.specEnv(st, prev, e.rootFr)
	se.vars = e.params
	for _, r := range e.rootC.Rely {
		st.Assume(e.evalBool(r.E, se))
	}
	e.note("opt cellhavoc: before every atomic pointer operation the cell may have been changed by other goroutines (subject to the rely)")
	return true
}

// blindStore: an atomic Store (not a compare-and-swap) overwrites whatever the cell holds at that instant. The
// contract must say what it may overwrite (`opt blindstore <condition over overwritten>`); without the clause no blind
// store is allowed in the function.
func (e *Engine) blindStore(st *State, fr *Frame, addr Val, pos string) {
	loc := e.locOf(addr)
	cur := e.loadLoc(st, loc)
	goal := False
	note := "this function has no `opt blindstore`: every write of the shared cell must be a compare-and-swap"
	if bs := e.rootC.Extra["blindstore"]; len(bs) > 0 {
		ex, err := ParseSpecExpr(strings.Join(bs, " "))
		if err != nil {
			panic(unsupported("opt blindstore: %v", err))
		}
		se := e.specEnv(st, e.oldOf(st), e.rootFr)
		se.vars = map[string]Val{}
		for k, v := range e.params {
			se.vars[k] = v
		}
		se.vars["overwritten"] = cur
		goal = e.evalBool(ex, se)
		note = "the value a blind atomic store overwrites: " + strings.Join(bs, " ")
	}
	// memory this call allocated itself may be initialised freely
	goal = Or(Not(Lt(e.allocID(addr.L[0]), e.next0)), goal)
	e.obligation(st, "blind-store", pos, goal, note)
}

// assumeRely: the shared-state invariant holds after interference (every goroutine maintains it).
func (e *Engine) assumeRely(st *State) {
	if e.rootC == nil || e.rootFr == nil {
		return
	}
	for _, r := range e.rootC.Rely {
		se := e.specEnv(st, st, e.rootFr)
		st.Assume(e.evalBool(r.E, se))
	}
}

// sharedAccess: the obligation for a plain load/store of object memory in atomic mode.
func (e *Engine) sharedAccess(st *State, fr *Frame, loc *Loc, write bool, pos string) {
	if !e.atomicMode() || st.dead {
		return
	}
	if e.guardedAccess(st, loc, write, pos) {
		return
	}
	if loc.Kind != LocObj {
		return
	}
	field := e.fieldName(loc)
	c := e.rootC
	in := func(list []string) bool {
		for _, l := range list {
			for _, f := range strings.Fields(l) {
				if f == field || strings.HasSuffix(field, "."+f) {
					return true
				}
			}
		}
		return false
	}
	if !write && in(c.Extra["immutable"]) {
		return
	}
	if in(c.Extra["oncefields"]) {
		// protected by the sync.Once of the same object: writable inside the Do closure that runs, readable there
		// and after Do has returned in this call
		if st.held["once-running"] || (!write && st.held["once-returned"]) {
			return
		}
	}
	kind := "shared-read"
	if write {
		kind = "shared-write"
	}
	fresh := Ge(e.allocID(loc.Ref), e.next0)
	e.obligation(st, kind, field+"@"+pos, fresh, "unsynchronised access to memory shared with other goroutines (only objects allocated by this call may be accessed plainly)")
}

func (e *Engine) fieldName(loc *Loc) string {
	t := loc.Root
	name := shortType(t)
	if nt, ok := t.(*types.Named); ok {
		name = nt.Obj().Name()
	}
	if stt, ok := t.Underlying().(*types.Struct); ok {
		off := 0
		for i := 0; i < stt.NumFields(); i++ {
			n := len(e.lay.Leaves(stt.Field(i).Type()))
			if loc.Off >= off && loc.Off < off+n {
				return name + "." + stt.Field(i).Name()
			}
			off += n
		}
	}
	return name
}

// atomic primitives of the standard library

func (e *Engine) primitiveAction(st *State, fr *Frame, kind string, obj Val, args []Val, rt types.Type, k callCont, post func(st *State, res Val)) {
	e.obligationPanic(st, "nil", kind, Not(Eq(obj.L[0], IntLit(0))))
	if e.atomicMode() {
		e.interfere(st)
	}
	pre := st.Clone()
	res := e.freshVal("act_"+kind, rt)
	st.Assume(e.wellFormed(res, st.next))
	// shared-state invariant of the typed wrappers: the contents always have dynamic type T
	if e.rootC != nil && len(e.rootC.Extra["contenttype"]) > 0 && e.rootFr != nil {
		se := e.specEnv(st, st, e.rootFr)
		ct := e.specType(e.rootC.Extra["contenttype"][0], se)
		tid := e.lay.TypeID(ct)
		switch kind {
		case "AVLoad", "AVSwap", "PoolGet":
			if len(res.L) == 2 {
				st.Assume(Or(Eq(res.L[0], IntLit(0)), Eq(res.L[0], tid)))
			}
		}
		switch kind {
		case "AVStore", "AVSwap", "PoolPut":
			if len(args) > 0 && len(args[0].L) == 2 {
				e.obligation(st, "guarantee", "content-type@"+kind, Eq(args[0].L[0], tid), "only values of the wrapper's type parameter are stored")
			}
		case "AVCompareAndSwap":
			if len(args) > 1 && len(args[1].L) == 2 {
				e.obligation(st, "guarantee", "content-type@"+kind, Eq(args[1].L[0], tid), "only values of the wrapper's type parameter are stored")
			}
		}
	}
	if post != nil {
		post(st, res)
	}
	a := &Action{Kind: kind, Obj: obj.L[0], Args: args, Pre: pre}
	if len(res.L) > 0 {
		a.Res = []Val{res}
	}
	a.Post = st.Clone()
	e.recordAction(st, a)
	k(st, fr, res)
}

func init() {
	prim := func(fn, kind string) {
		externModels[fn] = func(e *Engine, st *State, fr *Frame, callee *ssa.Function, args []Val, rt types.Type, pos string, k callCont) {
			e.primitiveAction(st, fr, kind, args[0], args[1:], rt, k, nil)
		}
	}
	// sync.Mutex / sync.RWMutex: see locks.go
	// sync/atomic.Value: in atomic mode an action with an unknown result (interference); in a SEQUENTIAL proof the
	// value is simply the content of the struct's only field
	externModels["(*sync/atomic.Value).Load"] = func(e *Engine, st *State, fr *Frame, callee *ssa.Function, args []Val, rt types.Type, pos string, k callCont) {
		if e.atomicMode() {
			e.primitiveAction(st, fr, "AVLoad", args[0], args[1:], rt, k, nil)
			return
		}
		e.obligationPanic(st, "nil", "atomic.Value.Load", Not(Eq(args[0].L[0], IntLit(0))))
		v := e.loadLoc(st, e.locOf(args[0]))
		v.T = rt
		st.Assume(e.wellFormed(v, st.next))
		k(st, fr, v)
	}
	externModels["(*sync/atomic.Value).Store"] = func(e *Engine, st *State, fr *Frame, callee *ssa.Function, args []Val, rt types.Type, pos string, k callCont) {
		if e.atomicMode() {
			e.primitiveAction(st, fr, "AVStore", args[0], args[1:], rt, k, nil)
			return
		}
		e.obligationPanic(st, "nil", "atomic.Value.Store", Not(Eq(args[0].L[0], IntLit(0))))
		e.obligationPanic(st, "store-nil", "atomic.Value.Store", Not(Eq(args[1].L[0], IntLit(0))))
		e.storeLoc(st, e.locOf(args[0]), args[1])
		k(st, fr, Val{T: types.NewTuple()})
	}
	// sync/atomic pointer operations in a sequential proof: plain memory operations
	externModels["sync/atomic.LoadPointer"] = func(e *Engine, st *State, fr *Frame, callee *ssa.Function, args []Val, rt types.Type, pos string, k callCont) {
		if e.atomicMode() {
			panic(unsupported("sync/atomic pointer operations in atomic mode"))
		}
		e.obligationPanic(st, "nil", "atomic.LoadPointer", Not(Eq(args[0].L[0], IntLit(0))))
		e.cellHavoc(st, fr, args[0])
		v := e.loadLoc(st, e.locOf(args[0]))
		v.T = rt
		k(st, fr, v)
	}
	externModels["sync/atomic.StorePointer"] = func(e *Engine, st *State, fr *Frame, callee *ssa.Function, args []Val, rt types.Type, pos string, k callCont) {
		if e.atomicMode() {
			panic(unsupported("sync/atomic pointer operations in atomic mode"))
		}
		e.obligationPanic(st, "nil", "atomic.StorePointer", Not(Eq(args[0].L[0], IntLit(0))))
		if e.cellHavoc(st, fr, args[0]) {
			e.blindStore(st, fr, args[0], pos)
		}
		e.storeLoc(st, e.locOf(args[0]), Val{T: e.locOf(args[0]).T, L: args[1].L})
		k(st, fr, Val{T: types.NewTuple()})
	}
	externModels["sync/atomic.CompareAndSwapPointer"] = func(e *Engine, st *State, fr *Frame, callee *ssa.Function, args []Val, rt types.Type, pos string, k callCont) {
		if e.atomicMode() {
			panic(unsupported("sync/atomic pointer operations in atomic mode"))
		}
		e.obligationPanic(st, "nil", "atomic.CompareAndSwapPointer", Not(Eq(args[0].L[0], IntLit(0))))
		e.cellHavoc(st, fr, args[0])
		loc := e.locOf(args[0])
		cur := e.loadLoc(st, loc)
		ok := Eq(cur.L[0], args[1].L[0])
		e.storeLoc(st, loc, Val{T: loc.T, L: []Term{Ite(ok, args[2].L[0], cur.L[0])}})
		k(st, fr, Val{T: rt, L: []Term{ok}})
	}
	// SwapPointer: an atomic unconditional exchange. Under cell havoc it overwrites whatever another goroutine has put
	// there, exactly like StorePointer, so it owes the same blind-store obligation (`opt blindstore <cond>` names the
	// overwritten values for which that is right); the overwritten value is then returned.
	externModels["sync/atomic.SwapPointer"] = func(e *Engine, st *State, fr *Frame, callee *ssa.Function, args []Val, rt types.Type, pos string, k callCont) {
		if e.atomicMode() {
			panic(unsupported("sync/atomic pointer operations in atomic mode"))
		}
		e.obligationPanic(st, "nil", "atomic.SwapPointer", Not(Eq(args[0].L[0], IntLit(0))))
		if e.cellHavoc(st, fr, args[0]) {
			e.blindStore(st, fr, args[0], pos)
		}
		loc := e.locOf(args[0])
		cur := e.loadLoc(st, loc)
		cur.T = rt
		e.storeLoc(st, loc, Val{T: loc.T, L: args[1].L})
		k(st, fr, cur)
	}
	prim("(*sync/atomic.Value).Swap", "AVSwap")
	prim("(*sync/atomic.Value).CompareAndSwap", "AVCompareAndSwap")
	prim("(*sync.Pool).Get", "PoolGet")
	prim("(*sync.Pool).Put", "PoolPut")
	// sync.Once.Do(g): ASSUMED atomic { if !done { g(); done = true } }; returns only when done.
	externModels["(*sync.Once).Do"] = func(e *Engine, st *State, fr *Frame, callee *ssa.Function, args []Val, rt types.Type, pos string, k callCont) {
		e.obligationPanic(st, "nil", "Once.Do", Not(Eq(args[0].L[0], IntLit(0))))
		if e.atomicMode() {
			e.interfere(st)
		}
		obj := args[0]
		g := args[1]
		// (a) some earlier Do already ran an action: g is not called; the protected fields hold what that action stored
		{
			s2 := st.Clone()
			fr2 := fr.cloneForPath()
			s2.path = append(s2.path, "d")
			e.havocOnceFields(s2, fr2, obj)
			s2.held = copyHeld(s2.held)
			s2.held["once-returned"] = true
			e.recordAction(s2, &Action{Kind: "OnceDo", Obj: obj.L[0], Args: []Val{g}, Res: []Val{mkBool(False)}, Pre: st.Clone(), Post: s2.Clone()})
			k(s2, fr2, Val{T: types.NewTuple()})
		}
		// (b) this call runs the action
		{
			st.path = append(st.path, "r")
			st.held = copyHeld(st.held)
			st.held["once-running"] = true
			pre := st.Clone()
			e.callValueT(st, fr, nil, g, nil, types.NewTuple(), pos, func(s3 *State, fr3 *Frame, _ Val) {
				s3.held = copyHeld(s3.held)
				delete(s3.held, "once-running")
				s3.held["once-returned"] = true
				e.recordAction(s3, &Action{Kind: "OnceDo", Obj: obj.L[0], Args: []Val{g}, Res: []Val{mkBool(True)}, Pre: pre, Post: s3.Clone()})
				k(s3, fr3, Val{T: types.NewTuple()})
			})
		}
	}
}

func copyHeld(m map[string]bool) map[string]bool {
	n := map[string]bool{}
	for k, v := range m {
		n[k] = v
	}
	return n
}

// havocOnceFields: after a Do that did not run our function, the Once-protected fields hold the values stored
// by the invocation that did run (ghost `first_<field>` of the object), and will never change again.
func (e *Engine) havocOnceFields(st *State, fr *Frame, once Val) {
	c := e.rootC
	if c == nil {
		return
	}
	recv, ok := e.params["this"]
	if !ok {
		return
	}
	loc := e.locOf(recv)
	stt, ok := loc.T.Underlying().(*types.Struct)
	if !ok {
		return
	}
	for _, l := range c.Extra["oncefields"] {
		for _, f := range strings.Fields(l) {
			name := f
			if i := strings.Index(f, "."); i >= 0 {
				name = f[i+1:]
			}
			for i := 0; i < stt.NumFields(); i++ {
				if stt.Field(i).Name() != name {
					continue
				}
				off, n := e.lay.fieldRange(stt, i)
				ft := resolve(stt.Field(i).Type(), fr.env)
				ls := e.lay.Leaves(ft)
				v := Val{T: ft, L: make([]Term, n)}
				for j := 0; j < n; j++ {
					v.L[j] = e.ctx.App(fmt.Sprintf("oncefirst_%s_%d", name, j), ls[j].Sort, recv.L[0])
				}
				fl := *loc
				fl.Off = loc.Off + off
				fl.N = n
				fl.T = ft
				e.storeLoc(st, &fl, v)
			}
		}
	}
}
