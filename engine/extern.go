package main

import (
	"go/types"

	"golang.org/x/tools/go/ssa"
)

// externModel returns the assumed contract of a function outside the
// repository (standard library), or nil.
func (e *Engine) externModel(fn *ssa.Function) externFn {
	b := bodyOf(fn)
	if b.Pkg == nil && b.Object() == nil {
		return nil
	}
	name := b.String()
	if m, ok := externModels[name]; ok {
		e.trustedUsed["assumed contract of "+name] = true
		return m
	}
	return nil
}

var externModels = map[string]externFn{}

func init() {
	// formatting for panic messages: pure, result irrelevant
	for _, n := range []string{"fmt.Sprintf", "fmt.Sprint", "fmt.Sprintln", "fmt.Errorf"} {
		externModels[n] = func(e *Engine, st *State, fr *Frame, callee *ssa.Function, args []Val, rt types.Type, pos string, k callCont) {
			k(st, fr, e.freshVal("fmt", rt))
		}
	}
}
