package main

import (
	"fmt"
	"go/types"
	"strings"

	"golang.org/x/tools/go/ssa"
)

// externModel returns the assumed contract of a function outside the
// repository (standard library), or nil.
func (e *Engine) externModel(fn *ssa.Function) externFn {
	b := bodyOf(fn)
	if b.Pkg == nil && b.Object() == nil {
		return nil
	}
	name := b.String()
	if m, ok := externModels[name]; ok {
		e.trustedUsed["assumed contract of "+name] = true
		return m
	}
	return nil
}

var externModels = map[string]externFn{}

func init() {
	// formatting for panic messages: pure, result irrelevant
	// (and diagnostic output: printing / logging does not touch the program state the contracts speak about)
	for _, n := range []string{"fmt.Sprintf", "fmt.Sprint", "fmt.Sprintln", "fmt.Errorf", "fmt.Println", "fmt.Printf", "fmt.Print",
		"log.Println", "log.Printf", "log.Print"} {
		externModels[n] = func(e *Engine, st *State, fr *Frame, callee *ssa.Function, args []Val, rt types.Type, pos string, k callCont) {
			k(st, fr, e.freshVal("fmt", rt))
		}
	}
}

// closureTerms evaluates a function value symbolically on fresh integer
// arguments (assumed to satisfy `dom`) in the given state. It returns the
// argument constants and the result leaves. The closure must be single-path
// and must not write memory; its run-time panics become obligations under dom.
func (e *Engine) closureTerms(st *State, fr *Frame, fnv Val, nargs int, hint string, dom func(args []Term) Term) (args []Term, res Val) {
	for i := 0; i < nargs; i++ {
		args = append(args, e.ctx.Fresh(fmt.Sprintf("%s_a%d", hint, i), SInt))
	}
	sub := st.Clone()
	sub.Assume(dom(args))
	sub.path = append(sub.path, "@"+hint+".")
	var vals []Val
	for _, a := range args {
		vals = append(vals, mkInt(a))
	}
	if fnv.Fn == nil || fnv.Fn.Fn == nil {
		panic(unsupported("%s: function argument is not a closure known at the call site", hint))
	}
	if fnv.Fn.Bound != nil {
		vals = append([]Val{*fnv.Fn.Bound}, vals...)
	}
	n := 0
	heapBefore := fmt.Sprint(sub.sliceHeap, sub.objHeap, sub.mapHeap)
	sfr := &Frame{depth: fr.depth, env: fr.env, fn: fr.fn, regs: fr.regs, names: fr.names}
	e.execFunction(sub, fnv.Fn.Fn, fnv.Fn.Env, vals, fnv.Fn.Bindings, sfr, nil, func(s2 *State, results []Val) {
		n++
		if len(results) == 1 {
			res = results[0]
		}
		if fmt.Sprint(s2.sliceHeap, s2.objHeap, s2.mapHeap) != heapBefore {
			panic(unsupported("%s: the function argument writes memory", hint))
		}
	})
	if n != 1 {
		panic(unsupported("%s: the function argument has %d return paths (need exactly 1)", hint, n))
	}
	return args, res
}

func substTerm(t Term, from []Term, to []string) Term {
	s := t.S
	for i := range from {
		s = strings.ReplaceAll(s, from[i].S, to[i])
	}
	return Term{s, t.Sort}
}

func init() {
	// sort.Search(n, f): ASSUMED contract. Requires f monotone on [0,n) (an obligation at the call site);
	// calls f only inside [0,n); returns the least index with f true, or n.
	externModels["sort.Search"] = func(e *Engine, st *State, fr *Frame, callee *ssa.Function, args []Val, rt types.Type, pos string, k callCont) {
		n := args[0].L[0]
		as, res := e.closureTerms(st, fr, args[1], 1, "search", func(a []Term) Term { return And(Le(IntLit(0), a[0]), Lt(a[0], n)) })
		p := func(v string) Term { return substTerm(res.L[0], as, []string{v}) }
		mono := T(SBool, "(forall ((q_i Int) (q_j Int)) (! (=> (and (<= 0 q_i) (< q_i q_j) (< q_j %s) %s) %s) :pattern ((idx q_i) (idx q_j))))", n.S, p("q_i").S, p("q_j").S)
		if !strings.Contains(p("q_i").S, "(idx q_i)") {
			mono = T(SBool, "(forall ((q_i Int) (q_j Int)) (=> (and (<= 0 q_i) (< q_i q_j) (< q_j %s) %s) %s))", n.S, p("q_i").S, p("q_j").S)
		}
		e.obligation(st, "call-pre", "sort.Search.monotone@"+pos, mono, "the predicate passed to sort.Search must be monotone on [0,n)")
		e.obligationPanic(st, "call-pre-n", "sort.Search.n@"+pos, Le(IntLit(0), n))
		r := e.ctx.Fresh("search_r", SInt)
		st.Assume(And(Le(IntLit(0), r), Le(r, n)))
		pat := ""
		if strings.Contains(p("q_i").S, "(idx q_i)") {
			pat = " :pattern ((idx q_i))"
		}
		st.Assume(T(SBool, "(forall ((q_i Int)) (! (=> (and (<= 0 q_i) (< q_i %s)) (not %s))%s))", r.S, p("q_i").S, pat))
		st.Assume(T(SBool, "(forall ((q_i Int)) (! (=> (and (<= %s q_i) (< q_i %s)) %s)%s))", r.S, n.S, p("q_i").S, pat))
		// seed terms so that quantifiers over positions can be instantiated at the result
		st.Assume(Eq(e.idxWrap(r), r))
		k(st, fr, mkInt(r))
	}
	// sort.SliceStable(x, less): ASSUMED contract. The slice is rearranged by a permutation (exposed as ghost
	// `sortperm`: new[i] == old[sortperm[i]]); afterwards no later element is less than an earlier one;
	// elements that less cannot order keep their relative order (sortperm is increasing on them).
	externModels["sort.SliceStable"] = func(e *Engine, st *State, fr *Frame, callee *ssa.Function, args []Val, rt types.Type, pos string, k callCont) {
		e.sortSliceModel(st, fr, args, pos, true, k)
	}
	externModels["sort.Slice"] = func(e *Engine, st *State, fr *Frame, callee *ssa.Function, args []Val, rt types.Type, pos string, k callCont) {
		e.sortSliceModel(st, fr, args, pos, false, k)
	}
}

func (e *Engine) sortSliceModel(st *State, fr *Frame, args []Val, pos string, stable bool, k callCont) {
	iv := args[0] // interface holding the slice
	if iv.Fn == nil || iv.Fn.Bound == nil {
		panic(unsupported("sort.SliceStable: slice argument not known at the call site"))
	}
	sv := *iv.Fn.Bound
	n := sv.L[2]
	et := resolve(elemOfSlice(sv.T), nil)
	perm := e.ctx.Fresh("sortperm", ArrSort(SInt, SInt))
	st.Assume(T(SBool, "(forall ((q_i Int)) (! (=> (and (<= 0 q_i) (< q_i %s)) (and (<= 0 (select %s q_i)) (< (select %s q_i) %s))) :pattern ((select %s q_i))))", n.S, perm.S, perm.S, n.S, perm.S))
	st.Assume(T(SBool, "(forall ((q_i Int) (q_j Int)) (! (=> (and (<= 0 q_i) (< q_i q_j) (< q_j %s)) (not (= (select %s q_i) (select %s q_j)))) :pattern ((select %s q_i) (select %s q_j))))", n.S, perm.S, perm.S, perm.S, perm.S))
	for i, lf := range e.lay.Leaves(et) {
		h := e.getSliceHeap(st, et, i)
		oldRow := Select(h, sv.L[0])
		newRow := e.ctx.DefArray("row_sorted", SInt, lf.Sort, func(kk Term) Term {
			in := And(Le(sv.L[1], kk), Lt(kk, Add(sv.L[1], n)))
			return Ite(in, Select(oldRow, Add(sv.L[1], Select(perm, Sub(kk, sv.L[1])))), Select(oldRow, kk))
		})
		e.setSliceHeap(st, et, i, e.nameTerm(st, e.sliceHeapKey(et, i), Store(h, sv.L[0], newRow)))
	}
	st.ghost["sortperm"] = Val{T: nil, L: []Term{perm}}
	// order: evaluated on the final arrangement
	as, res := e.closureTerms(st, fr, args[1], 2, "less", func(a []Term) Term {
		return And(Le(IntLit(0), a[0]), Lt(a[0], n), Le(IntLit(0), a[1]), Lt(a[1], n))
	})
	l := func(x, y string) Term { return substTerm(res.L[0], as, []string{x, y}) }
	st.Assume(T(SBool, "(forall ((q_i Int) (q_j Int)) (! (=> (and (<= 0 q_i) (< q_i q_j) (< q_j %s)) (not %s)) :pattern ((idx q_i) (idx q_j))))", n.S, l("q_j", "q_i").S))
	if stable {
		st.Assume(T(SBool, "(forall ((q_i Int) (q_j Int)) (! (=> (and (<= 0 q_i) (< q_i q_j) (< q_j %s) (not %s)) (< (select %s q_i) (select %s q_j))) :pattern ((select %s q_i) (select %s q_j))))", n.S, l("q_i", "q_j").S, perm.S, perm.S, perm.S, perm.S))
	}
	k(st, fr, Val{T: types.NewTuple()})
}

// ---------------------------------------------------------------------------
// sort.Sort / sort.Stable / sort.Reverse over a sort.Interface adapter, rand.Shuffle.
//
// ASSUMED contract of sort.Sort(data) and sort.Stable(data): with n = data.Len(), the call performs a finite
// sequence of data.Swap(i, j) with 0 <= i, j < n — so the memory the adapter's Swap permutes (declared by
// `opt sortdata <expr>` on the adapter's proved Swap contract) ends up as a permutation of itself, exposed as
// ghost `sortperm` (new[i] == old[sortperm[i]]) — and afterwards !data.Less(j, i) for all i < j; Stable
// additionally keeps elements that Less cannot order in their original relative order. sort.Reverse(x) is x with
// Less(i, j) replaced by x.Less(j, i).

var reverseMarker = types.NewNamed(types.NewTypeName(0, nil, "sort.reverse", nil), types.NewStruct(nil, nil), nil)

func (e *Engine) sortInterfaceModel(st *State, fr *Frame, data Val, stable bool, pos string, k callCont) {
	rev := false
	for data.Fn != nil && data.Fn.Bound != nil && data.Fn.Bound.T == reverseMarker {
		rev = !rev
		data = *data.Fn.Bound.Fn.Bound
	}
	if data.Fn == nil || data.Fn.Bound == nil {
		panic(unsupported("sort: the sort.Interface argument is not known at the call site"))
	}
	cv := *data.Fn.Bound
	ms := e.prog.MethodSets.MethodSet(cv.T)
	find := func(name string) (*ssa.Function, TEnv) {
		for i := 0; i < ms.Len(); i++ {
			if ms.At(i).Obj().Name() == name {
				return e.methodOf(ms.At(i), cv.T, fr.env)
			}
		}
		panic(unsupported("sort: adapter %s has no method %s", cv.T, name))
	}
	swapFn, _ := find("Swap")
	lessFn, lessEnv := find("Less")
	sc := e.contractFor(swapFn)
	if sc == nil || len(sc.Extra["sortdata"]) == 0 {
		panic(unsupported("sort: adapter %s needs a Swap contract with `opt sortdata <expr>`", cv.T))
	}
	e.callees[e.contractKey(swapFn)+" (adapter Swap contract: exchanges exactly two elements)"] = true
	ex, err := ParseSpecExpr(sc.Extra["sortdata"][0])
	if err != nil {
		panic(unsupported("sortdata: %v", err))
	}
	recvName := bodyOf(swapFn).Params[0].Name()
	se := &SpecEnv{e: e, st: st, old: st, fr: fr, vars: map[string]Val{recvName: cv}, env: fr.env, pkg: sc.Pkg}
	sv := e.evalSpec(ex, se)
	n := sv.L[2]
	et := resolve(elemOfSlice(sv.T), nil)
	perm := e.sortPermute(st, sv, et, n)
	// the order, evaluated on the final arrangement
	i0 := e.ctx.Fresh("less_i", SInt)
	j0 := e.ctx.Fresh("less_j", SInt)
	sub := st.Clone()
	sub.Assume(And(Le(IntLit(0), i0), Lt(i0, n), Le(IntLit(0), j0), Lt(j0, n)))
	sub.path = append(sub.path, "@less.")
	var res Val
	cnt := 0
	sfr := &Frame{depth: fr.depth, env: fr.env, fn: fr.fn, regs: fr.regs, names: fr.names}
	e.execFunction(sub, lessFn, lessEnv, []Val{cv, mkInt(i0), mkInt(j0)}, nil, sfr, nil, func(s2 *State, results []Val) {
		cnt++
		if len(results) == 1 {
			res = results[0]
		}
	})
	if cnt != 1 {
		panic(unsupported("sort: adapter Less has %d return paths", cnt))
	}
	l := func(x, y string) Term {
		if rev {
			x, y = y, x
		}
		return substTerm(res.L[0], []Term{i0, j0}, []string{x, y})
	}
	st.Assume(T(SBool, "(forall ((q_i Int) (q_j Int)) (! (=> (and (<= 0 q_i) (< q_i q_j) (< q_j %s)) (not %s)) :pattern ((idx q_i) (idx q_j))))", n.S, l("q_j", "q_i").S))
	if stable {
		st.Assume(T(SBool, "(forall ((q_i Int) (q_j Int)) (! (=> (and (<= 0 q_i) (< q_i q_j) (< q_j %s) (not %s)) (< (select %s q_i) (select %s q_j))) :pattern ((select %s q_i) (select %s q_j))))", n.S, l("q_i", "q_j").S, perm.S, perm.S, perm.S, perm.S))
	}
	k(st, fr, Val{T: types.NewTuple()})
}

// sortPermute replaces the slice's cells by a ghost permutation of themselves.
func (e *Engine) sortPermute(st *State, sv Val, et types.Type, n Term) Term {
	perm := e.ctx.Fresh("sortperm", ArrSort(SInt, SInt))
	st.Assume(T(SBool, "(forall ((q_i Int)) (! (=> (and (<= 0 q_i) (< q_i %s)) (and (<= 0 (select %s q_i)) (< (select %s q_i) %s))) :pattern ((select %s q_i))))", n.S, perm.S, perm.S, n.S, perm.S))
	st.Assume(T(SBool, "(forall ((q_i Int) (q_j Int)) (! (=> (and (<= 0 q_i) (< q_i q_j) (< q_j %s)) (not (= (select %s q_i) (select %s q_j)))) :pattern ((select %s q_i) (select %s q_j))))", n.S, perm.S, perm.S, perm.S, perm.S))
	for i, lf := range e.lay.Leaves(et) {
		h := e.getSliceHeap(st, et, i)
		oldRow := Select(h, sv.L[0])
		newRow := e.ctx.DefArray("row_sorted", SInt, lf.Sort, func(kk Term) Term {
			in := And(Le(sv.L[1], kk), Lt(kk, Add(sv.L[1], n)))
			return Ite(in, Select(oldRow, Add(sv.L[1], Select(perm, Sub(kk, sv.L[1])))), Select(oldRow, kk))
		})
		e.setSliceHeap(st, et, i, e.nameTerm(st, e.sliceHeapKey(et, i), Store(h, sv.L[0], newRow)))
	}
	st.ghost["sortperm"] = Val{T: nil, L: []Term{perm}}
	return perm
}

// shuffleModel: ASSUMED contract of rand.Shuffle / (*rand.Rand).Shuffle(n, swap): a finite sequence of
// swap(i, j) calls with 0 <= i, j < n that is a function of the generator's state and n only. The engine
// checks (obligation) that the supplied swap exchanges exactly the two elements of the slice named by the
// caller's `opt sortdata`, and then permutes that slice by shufperm(source, n).
func (e *Engine) shuffleModel(st *State, fr *Frame, src Term, n Term, swap Val, pos string, k callCont) {
	rc := e.rootC
	if fr.contract != nil {
		rc = fr.contract
	}
	if rc == nil || len(rc.Extra["sortdata"]) == 0 {
		panic(unsupported("Shuffle: the calling function needs `opt sortdata <slice>`"))
	}
	ex, err := ParseSpecExpr(rc.Extra["sortdata"][0])
	if err != nil {
		panic(unsupported("sortdata: %v", err))
	}
	se := e.specEnv(st, e.entry, fr)
	se.preferNames = true
	sv := e.evalSpec(ex, se)
	et := resolve(elemOfSlice(sv.T), nil)
	e.obligation(st, "call-pre", "Shuffle.n@"+pos, Eq(n, sv.L[2]), "Shuffle is given the length of the slice its swap function permutes")
	// the swap closure exchanges exactly elements i and j
	i0 := e.ctx.Fresh("swap_i", SInt)
	j0 := e.ctx.Fresh("swap_j", SInt)
	sub := st.Clone()
	sub.Assume(And(Le(IntLit(0), i0), Lt(i0, n), Le(IntLit(0), j0), Lt(j0, n)))
	sub.path = append(sub.path, "@swap.")
	if swap.Fn == nil || swap.Fn.Fn == nil {
		panic(unsupported("Shuffle: swap is not a closure known at the call site"))
	}
	sfr := &Frame{depth: fr.depth, env: fr.env, fn: fr.fn, regs: fr.regs, names: fr.names}
	e.execFunction(sub, swap.Fn.Fn, swap.Fn.Env, []Val{mkInt(i0), mkInt(j0)}, swap.Fn.Bindings, sfr, nil, func(s2 *State, results []Val) {
		for li := range e.lay.Leaves(et) {
			before := e.getSliceHeap(st, et, li)
			after := e.getSliceHeap(s2, et, li)
			row := Select(before, sv.L[0])
			want := Store(before, sv.L[0], Store(Store(row, Add(sv.L[1], i0), Select(row, Add(sv.L[1], j0))), Add(sv.L[1], j0), Select(row, Add(sv.L[1], i0))))
			// pointwise at an arbitrary (fresh) cell: equivalent to equality of the two heaps, and quantifier- and
			// extensionality-free for the solver
			qb := e.ctx.Fresh("swap_qb", SInt)
			qk := e.ctx.Fresh("swap_qk", SInt)
			// (idx x) == x: writing the cell as off + idx(qk - off) gives quantified contracts of the swap function
			// (pattern idx) their instance at this cell
			cell := Add(sv.L[1], T(SInt, "(idx %s)", Sub(qk, sv.L[1]).S))
			e.obligation(s2, "call-pre", "Shuffle.swap-is-transposition@"+pos, Eq(Select(Select(after, qb), cell), Select(Select(want, qb), cell)), "the function passed to Shuffle exchanges exactly elements i and j of the slice")
		}
	})
	perm := e.sortPermute(st, sv, et, n)
	sp := e.ctx.App("shufperm", ArrSort(SInt, SInt), src, n)
	st.Assume(T(SBool, "(= %s %s)", perm.S, sp.S))
	st.ghost["shufsrc"] = mkInt(src)
	k(st, fr, Val{T: types.NewTuple()})
}

func init() {
	externModels["sort.Sort"] = func(e *Engine, st *State, fr *Frame, callee *ssa.Function, args []Val, rt types.Type, pos string, k callCont) {
		e.sortInterfaceModel(st, fr, args[0], false, pos, k)
	}
	externModels["sort.Stable"] = func(e *Engine, st *State, fr *Frame, callee *ssa.Function, args []Val, rt types.Type, pos string, k callCont) {
		e.sortInterfaceModel(st, fr, args[0], true, pos, k)
	}
	externModels["sort.Reverse"] = func(e *Engine, st *State, fr *Frame, callee *ssa.Function, args []Val, rt types.Type, pos string, k callCont) {
		inner := args[0]
		marker := Val{T: reverseMarker, Fn: &FuncVal{Bound: &inner}}
		out := Val{T: rt, L: []Term{e.ctx.Fresh("rev_tag", SInt), e.ctx.Fresh("rev_box", e.ctx.DeclareSort("Box"))}, Fn: &FuncVal{Bound: &marker}}
		st.Assume(Not(Eq(out.L[0], IntLit(0))))
		k(st, fr, out)
	}
	externModels["math/rand.Shuffle"] = func(e *Engine, st *State, fr *Frame, callee *ssa.Function, args []Val, rt types.Type, pos string, k callCont) {
		e.shuffleModel(st, fr, e.ctx.Const("global_rand_source", SInt), args[0].L[0], args[1], pos, k)
	}
	externModels["(*math/rand.Rand).Shuffle"] = func(e *Engine, st *State, fr *Frame, callee *ssa.Function, args []Val, rt types.Type, pos string, k callCont) {
		e.obligationPanic(st, "nil", pos, Not(Eq(args[0].L[0], IntLit(0))))
		src := e.ctx.App("randstate", SInt, args[0].L[0])
		e.shuffleModel(st, fr, src, args[1].L[0], args[2], pos, k)
	}
}
