package main

import (
	"fmt"
	"go/types"
	"strings"

	"golang.org/x/tools/go/ssa"
)

// externModel returns the assumed contract of a function outside the
// repository (standard library), or nil.
func (e *Engine) externModel(fn *ssa.Function) externFn {
	b := bodyOf(fn)
	if b.Pkg == nil && b.Object() == nil {
		return nil
	}
	name := b.String()
	if m, ok := externModels[name]; ok {
		e.trustedUsed["assumed contract of "+name] = true
		return m
	}
	return nil
}

var externModels = map[string]externFn{}

func init() {
	// formatting for panic messages: pure, result irrelevant
	for _, n := range []string{"fmt.Sprintf", "fmt.Sprint", "fmt.Sprintln", "fmt.Errorf"} {
		externModels[n] = func(e *Engine, st *State, fr *Frame, callee *ssa.Function, args []Val, rt types.Type, pos string, k callCont) {
			k(st, fr, e.freshVal("fmt", rt))
		}
	}
}

// closureTerms evaluates a function value symbolically on fresh integer
// arguments (assumed to satisfy `dom`) in the given state. It returns the
// argument constants and the result leaves. The closure must be single-path
// and must not write memory; its run-time panics become obligations under dom.
func (e *Engine) closureTerms(st *State, fr *Frame, fnv Val, nargs int, hint string, dom func(args []Term) Term) (args []Term, res Val) {
	for i := 0; i < nargs; i++ {
		args = append(args, e.ctx.Fresh(fmt.Sprintf("%s_a%d", hint, i), SInt))
	}
	sub := st.Clone()
	sub.Assume(dom(args))
	sub.path = append(sub.path, "@"+hint+".")
	var vals []Val
	for _, a := range args {
		vals = append(vals, mkInt(a))
	}
	if fnv.Fn == nil || fnv.Fn.Fn == nil {
		panic(unsupported("%s: function argument is not a closure known at the call site", hint))
	}
	n := 0
	heapBefore := fmt.Sprint(sub.sliceHeap, sub.objHeap, sub.mapHeap)
	sfr := &Frame{depth: fr.depth, env: fr.env, fn: fr.fn, regs: fr.regs, names: fr.names}
	e.execFunction(sub, fnv.Fn.Fn, fnv.Fn.Env, vals, fnv.Fn.Bindings, sfr, nil, func(s2 *State, results []Val) {
		n++
		if len(results) == 1 {
			res = results[0]
		}
		if fmt.Sprint(s2.sliceHeap, s2.objHeap, s2.mapHeap) != heapBefore {
			panic(unsupported("%s: the function argument writes memory", hint))
		}
	})
	if n != 1 {
		panic(unsupported("%s: the function argument has %d return paths (need exactly 1)", hint, n))
	}
	return args, res
}

func substTerm(t Term, from []Term, to []string) Term {
	s := t.S
	for i := range from {
		s = strings.ReplaceAll(s, from[i].S, to[i])
	}
	return Term{s, t.Sort}
}

func init() {
	// sort.Search(n, f): ASSUMED contract. Requires f monotone on [0,n) (an obligation at the call site);
	// calls f only inside [0,n); returns the least index with f true, or n.
	externModels["sort.Search"] = func(e *Engine, st *State, fr *Frame, callee *ssa.Function, args []Val, rt types.Type, pos string, k callCont) {
		n := args[0].L[0]
		as, res := e.closureTerms(st, fr, args[1], 1, "search", func(a []Term) Term { return And(Le(IntLit(0), a[0]), Lt(a[0], n)) })
		p := func(v string) Term { return substTerm(res.L[0], as, []string{v}) }
		mono := T(SBool, "(forall ((q_i Int) (q_j Int)) (! (=> (and (<= 0 q_i) (< q_i q_j) (< q_j %s) %s) %s) :pattern ((idx q_i) (idx q_j))))", n.S, p("q_i").S, p("q_j").S)
		if !strings.Contains(p("q_i").S, "(idx q_i)") {
			mono = T(SBool, "(forall ((q_i Int) (q_j Int)) (=> (and (<= 0 q_i) (< q_i q_j) (< q_j %s) %s) %s))", n.S, p("q_i").S, p("q_j").S)
		}
		e.obligation(st, "call-pre", "sort.Search.monotone@"+pos, mono, "the predicate passed to sort.Search must be monotone on [0,n)")
		e.obligationPanic(st, "call-pre-n", "sort.Search.n@"+pos, Le(IntLit(0), n))
		r := e.ctx.Fresh("search_r", SInt)
		st.Assume(And(Le(IntLit(0), r), Le(r, n)))
		pat := ""
		if strings.Contains(p("q_i").S, "(idx q_i)") {
			pat = " :pattern ((idx q_i))"
		}
		st.Assume(T(SBool, "(forall ((q_i Int)) (! (=> (and (<= 0 q_i) (< q_i %s)) (not %s))%s))", r.S, p("q_i").S, pat))
		st.Assume(T(SBool, "(forall ((q_i Int)) (! (=> (and (<= %s q_i) (< q_i %s)) %s)%s))", r.S, n.S, p("q_i").S, pat))
		// seed terms so that quantifiers over positions can be instantiated at the result
		st.Assume(Eq(e.idxWrap(r), r))
		k(st, fr, mkInt(r))
	}
	// sort.SliceStable(x, less): ASSUMED contract. The slice is rearranged by a permutation (exposed as ghost
	// `sortperm`: new[i] == old[sortperm[i]]); afterwards no later element is less than an earlier one;
	// elements that less cannot order keep their relative order (sortperm is increasing on them).
	externModels["sort.SliceStable"] = func(e *Engine, st *State, fr *Frame, callee *ssa.Function, args []Val, rt types.Type, pos string, k callCont) {
		e.sortSliceModel(st, fr, args, pos, true, k)
	}
	externModels["sort.Slice"] = func(e *Engine, st *State, fr *Frame, callee *ssa.Function, args []Val, rt types.Type, pos string, k callCont) {
		e.sortSliceModel(st, fr, args, pos, false, k)
	}
}

func (e *Engine) sortSliceModel(st *State, fr *Frame, args []Val, pos string, stable bool, k callCont) {
	iv := args[0] // interface holding the slice
	if iv.Fn == nil || iv.Fn.Bound == nil {
		panic(unsupported("sort.SliceStable: slice argument not known at the call site"))
	}
	sv := *iv.Fn.Bound
	n := sv.L[2]
	et := resolve(elemOfSlice(sv.T), nil)
	perm := e.ctx.Fresh("sortperm", ArrSort(SInt, SInt))
	st.Assume(T(SBool, "(forall ((q_i Int)) (! (=> (and (<= 0 q_i) (< q_i %s)) (and (<= 0 (select %s q_i)) (< (select %s q_i) %s))) :pattern ((select %s q_i))))", n.S, perm.S, perm.S, n.S, perm.S))
	st.Assume(T(SBool, "(forall ((q_i Int) (q_j Int)) (! (=> (and (<= 0 q_i) (< q_i q_j) (< q_j %s)) (not (= (select %s q_i) (select %s q_j)))) :pattern ((select %s q_i) (select %s q_j))))", n.S, perm.S, perm.S, perm.S, perm.S))
	for i, lf := range e.lay.Leaves(et) {
		h := e.getSliceHeap(st, et, i)
		oldRow := Select(h, sv.L[0])
		newRow := e.ctx.DefArray("row_sorted", SInt, lf.Sort, func(kk Term) Term {
			in := And(Le(sv.L[1], kk), Lt(kk, Add(sv.L[1], n)))
			return Ite(in, Select(oldRow, Add(sv.L[1], Select(perm, Sub(kk, sv.L[1])))), Select(oldRow, kk))
		})
		e.setSliceHeap(st, et, i, e.nameTerm(st, e.sliceHeapKey(et, i), Store(h, sv.L[0], newRow)))
	}
	st.ghost["sortperm"] = Val{T: nil, L: []Term{perm}}
	// order: evaluated on the final arrangement
	as, res := e.closureTerms(st, fr, args[1], 2, "less", func(a []Term) Term {
		return And(Le(IntLit(0), a[0]), Lt(a[0], n), Le(IntLit(0), a[1]), Lt(a[1], n))
	})
	l := func(x, y string) Term { return substTerm(res.L[0], as, []string{x, y}) }
	st.Assume(T(SBool, "(forall ((q_i Int) (q_j Int)) (! (=> (and (<= 0 q_i) (< q_i q_j) (< q_j %s)) (not %s)) :pattern ((idx q_i) (idx q_j))))", n.S, l("q_j", "q_i").S))
	if stable {
		st.Assume(T(SBool, "(forall ((q_i Int) (q_j Int)) (! (=> (and (<= 0 q_i) (< q_i q_j) (< q_j %s) (not %s)) (< (select %s q_i) (select %s q_j))) :pattern ((select %s q_i) (select %s q_j))))", n.S, l("q_i", "q_j").S, perm.S, perm.S, perm.S, perm.S))
	}
	k(st, fr, Val{T: types.NewTuple()})
}
