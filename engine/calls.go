package main

import (
	"fmt"
	"go/types"
	"strings"

	"golang.org/x/tools/go/ssa"
)

type callCont func(st *State, fr *Frame, res Val)

func (e *Engine) contractKey(fn *ssa.Function) string {
	fn = bodyOf(fn)
	if fn.Synthetic != "" && !strings.HasPrefix(fn.Synthetic, "instance of") {
		// bound-method wrappers, thunks: no contract of their own, they are inlined
		return ""
	}
	if fn.Pkg == nil && fn.Parent() == nil {
		// instantiated or synthetic
		if fn.Object() == nil {
			return ""
		}
	}
	obj := fn.Object()
	if obj == nil {
		return ""
	}
	pkg := ""
	if obj.Pkg() != nil {
		pkg = obj.Pkg().Name()
	}
	name := obj.Name()
	if sig, ok := obj.Type().(*types.Signature); ok && sig.Recv() != nil {
		rt := sig.Recv().Type()
		if pt, ok := rt.(*types.Pointer); ok {
			rt = pt.Elem()
		}
		if nt, ok := rt.(*types.Named); ok {
			name = nt.Obj().Name() + "." + name
		}
	}
	return pkg + "." + name
}

func (e *Engine) contractFor(fn *ssa.Function) *Contract {
	k := e.contractKey(fn)
	if k == "" {
		return nil
	}
	// a root verified under a contract variant (Key#variant) uses the same variant of its callees when it exists
	if e.rootC != nil {
		if i := strings.Index(e.rootC.Key, "#"); i >= 0 {
			if c, ok := e.cs.Funcs[k+e.rootC.Key[i:]]; ok {
				return c
			}
		}
	}
	return e.cs.Funcs[k]
}

func (e *Engine) execCall(st *State, fr *Frame, call *ssa.Call, k callCont) {
	cc := call.Common()
	pos := posOf(fr.fn, call.Pos())
	var args []Val
	for _, a := range cc.Args {
		args = append(args, e.operand(st, fr, a))
	}
	rt := resolve(call.Type(), fr.env)
	if cc.IsInvoke() {
		recv := e.operand(st, fr, cc.Value)
		e.invoke(st, fr, recv, cc.Method, args, rt, pos, k)
		return
	}
	if b, ok := cc.Value.(*ssa.Builtin); ok {
		e.builtin(st, fr, b.Name(), args, rt, pos, call, k)
		return
	}
	fnv := e.operand(st, fr, cc.Value)
	e.callValueT(st, fr, cc, fnv, args, rt, pos, k)
}

func (e *Engine) callValue(st *State, fr *Frame, cc *ssa.CallCommon, fnv Val, args []Val, pos string, k callCont) {
	var rt types.Type = types.NewTuple()
	if cc.IsInvoke() {
		e.invoke(st, fr, fnv, cc.Method, args, rt, pos, k)
		return
	}
	if b, ok := cc.Value.(*ssa.Builtin); ok {
		e.builtin(st, fr, b.Name(), args, rt, pos, nil, k)
		return
	}
	if sig, ok := fnv.T.Underlying().(*types.Signature); ok {
		rt = resultType(sig, nil)
	}
	e.callValueT(st, fr, cc, fnv, args, rt, pos, k)
}

func resultType(sig *types.Signature, env TEnv) types.Type {
	switch sig.Results().Len() {
	case 0:
		return types.NewTuple()
	case 1:
		return resolve(sig.Results().At(0).Type(), env)
	}
	return subst(sig.Results(), env)
}

func (e *Engine) callValueT(st *State, fr *Frame, cc *ssa.CallCommon, fnv Val, args []Val, rt types.Type, pos string, k callCont) {
	if fnv.Fn == nil {
		// unknown function value
		e.obligationPanic(st, "nil-func", pos, Not(Eq(fnv.L[0], IntLit(0))))
		e.callSymbolic(st, fr, "fnval", fnv, args, rt, k)
		return
	}
	fv := fnv.Fn
	if fv.Sym != "" {
		e.obligationPanic(st, "nil-func", pos, Not(Eq(fnv.L[0], IntLit(0))))
		e.callSymbolic(st, fr, fv.Sym, fnv, args, rt, k)
		return
	}
	callee := fv.Fn
	if fv.Bound != nil {
		args = append([]Val{*fv.Bound}, args...)
	}
	e.callStatic(st, fr, callee, fv.Env, fv.Bindings, args, rt, pos, k)
}

// callStatic: callee with contract -> modular; otherwise inline.
func (e *Engine) callStatic(st *State, fr *Frame, callee *ssa.Function, env TEnv, bindings []Val, args []Val, rt types.Type, pos string, k callCont) {
	body := bodyOf(callee)
	// bound method wrappers and thunks: unwrap
	if body.Synthetic != "" && len(body.Blocks) > 0 && (strings.HasPrefix(body.Synthetic, "bound method wrapper") || strings.HasPrefix(body.Synthetic, "thunk")) {
		// fallthrough to inlining the wrapper body
	}
	if m := e.externModel(callee); m != nil {
		m(e, st, fr, callee, args, rt, pos, k)
		return
	}
	c := e.contractFor(callee)
	e.logCall(st, fr, callee, args)
	if e.rootC != nil && len(e.rootC.Extra["logcalls"]) > 0 {
		k0 := k
		k = func(st *State, fr *Frame, res Val) {
			e.logResult(st, callee, res)
			k0(st, fr, res)
		}
	}
	if c != nil && e.inlineCall(callee) {
		c = nil
	}
	if c != nil && c.Mode == "rangeloop" {
		key := e.contractKey(callee)
		e.callees[key] = true
		if c.Trusted {
			e.trustedUsed[key] = true
		}
		e.rangeLoop(st, fr, c, key, e.bindParams(callee, args), args, pos, k)
		return
	}
	if c != nil && c.Mode == "seqloop" && len(args) > 0 && args[len(args)-1].Fn != nil && args[len(args)-1].Fn.Fn != nil && bodyOf(callee) != e.root {
		key := e.contractKey(callee)
		e.callees[key] = true
		e.seqLoop(st, fr, c, key, e.bindParams(callee, args), args, pos, k)
		return
	}
	if c != nil && !c.Inline && !(body == e.root && false) {
		e.callContract(st, fr, callee, c, env, args, rt, pos, k)
		return
	}
	if len(body.Blocks) == 0 {
		panic(unsupported("call of external function %s without a model", callee))
	}
	if c == nil && body.Parent() == nil {
		e.callees[e.contractKey(callee)+" (inlined, no contract)"] = true
	}
	if env == nil {
		env = e.calleeEnv(callee, fr.env)
	}
	caller := fr
	e.execFunction(st, callee, env, args, bindings, caller, c, func(st *State, results []Val) {
		var res Val
		switch len(results) {
		case 0:
			res = Val{T: types.NewTuple()}
		case 1:
			res = results[0]
			res.T = rt
		default:
			res = Val{T: rt}
			for _, r := range results {
				res.L = append(res.L, r.L...)
			}
		}
		k(st, caller, res)
	})
}

// ---------------------------------------------------------------------------
// modular call through a contract

func (e *Engine) bindParams(callee *ssa.Function, args []Val) map[string]Val {
	body := bodyOf(callee)
	vars := map[string]Val{}
	for i, p := range body.Params {
		if i < len(args) {
			vars[p.Name()] = args[i]
			if i == 0 && body.Signature.Recv() != nil {
				vars["this"] = args[i]
			}
		}
	}
	return vars
}

// genericResultName: `result` / `result<i>` - valid in a contract whether or not the function names its results.
func genericResultName(i, n int) string {
	if n == 1 {
		return "result"
	}
	return fmt.Sprintf("result%d", i)
}

func resultNames(fn *ssa.Function) []string {
	sig := fn.Signature
	var out []string
	for i := 0; i < sig.Results().Len(); i++ {
		n := sig.Results().At(i).Name()
		if n == "" || n == "_" {
			if sig.Results().Len() == 1 {
				n = "result"
			} else {
				n = fmt.Sprintf("result%d", i)
			}
		}
		out = append(out, n)
	}
	return out
}

func (e *Engine) callContract(st *State, fr *Frame, callee *ssa.Function, c *Contract, env TEnv, args []Val, rt types.Type, pos string, k callCont) {
	if env == nil {
		env = e.calleeEnv(callee, fr.env)
	}
	body := bodyOf(callee)
	key := e.contractKey(callee)
	e.callees[key] = true
	if c.Trusted {
		e.trustedUsed[key] = true
	}
	vars := e.bindParams(callee, args)
	if body.Signature.Recv() != nil {
		for i, n := range c.ImplAlias {
			if i+1 < len(args) {
				vars[n] = args[i+1]
			}
		}
	}
	cfr := &Frame{fn: body, env: env, regs: map[ssa.Value]Val{}, names: map[string]NameBinding{}, parent: fr, depth: fr.depth + 1}
	for n, v := range vars {
		cfr.names[n] = NameBinding{V: v}
	}
	e.calleeEntryHeld(st, c, key, pos, false)
	// a slice argument of small literal length (a variadic call): seed the index terms the callee's quantified
	// clauses are triggered on (literal indices are not wrapped in idx(), so nothing would match otherwise)
	for _, a := range args {
		if _, ok := a.T.Underlying().(*types.Slice); ok && len(a.L) == 4 && isNumeral(a.L[2]) {
			if n, okn := constInt(a.L[2].S); okn && n > 0 && n <= 8 {
				f := e.ctx.Fun("idx", []Sort{SInt}, SInt)
				e.ctx.Axiom("idx_id", "(forall ((x Int)) (! (= (idx x) x) :pattern ((idx x))))")
				for i := 0; i < n; i++ {
					st.Assume(T(SBool, "(= (%s %d) %d)", f, i, i))
				}
			}
		}
	}
	isAction := e.atomicMode() && c.Trusted
	if isAction || (e.atomicMode() && c.Mode == "atomic") {
		// other goroutines act before the callee's (first) action
		e.interfere(st)
	}
	// ownership: structures passed to `owns` parameters are folded first (their views become terms)
	ownsVals := e.ownedExprs(c.Owns, &SpecEnv{e: e, st: st, old: st, fr: cfr, vars: vars, env: env, pkg: c.Pkg})
	for _, av := range ownsVals {
		if od := e.isOwnedPtr(av.T); od != nil {
			e.closeChunk(st, od, av.L[0], av.T.Underlying().(*types.Pointer).Elem(), "call "+key)
		}
	}
	pre := st.Clone()
	se := &SpecEnv{e: e, st: st, old: pre, fr: cfr, vars: vars, env: env, pkg: c.Pkg}
	e.bindLets(c, se)
	// panic condition of the callee
	if c.PanicsIff != nil {
		cond := e.evalBool(c.PanicsIff.E, se)
		e.obligationPanic(st, "call-nopanic", key+"@"+pos, Not(cond))
	}
	for i, r := range c.Requires {
		g := e.evalBool(r.E, se)
		lab := r.Label
		if lab == "" {
			lab = fmt.Sprint(i)
		}
		e.obligation(st, "call-pre", key+"."+lab+"@"+pos, g, r.Src)
		st.Assume(g)
	}
	// `opt noblindstore on`: this operation must never overwrite a shared atomic cell blindly; a callee whose contract
	// (in any variant) needs `opt blindstore` performs such a store
	if e.rootC != nil && len(e.rootC.Extra["noblindstore"]) > 0 {
		base := key
		if i := strings.Index(base, "#"); i >= 0 {
			base = base[:i]
		}
		for _, k2 := range e.cs.Order {
			c2 := e.cs.Funcs[k2]
			if c2 != nil && (k2 == base || strings.HasPrefix(k2, base+"#")) && len(c2.Extra["blindstore"]) > 0 {
				e.obligation(st, "no-blind-store", key+"@"+pos, False, "this operation may not overwrite a shared cell blindly, and "+base+" does (its contract needs `opt blindstore`)")
				break
			}
		}
	}
	// termination of direct recursion: the callee's measure (on its arguments) is below this activation's measure at entry
	if e.rootC != nil && e.rootC == c && len(c.Decr) > 0 && e.rootFr != nil && e.entry != nil {
		re := &SpecEnv{e: e, st: e.entry, old: e.entry, fr: e.rootFr, vars: e.params, env: e.rootEnv, pkg: e.rootC.Pkg}
		e.bindLets(c, re)
		g := False
		for i := len(c.Decr) - 1; i >= 0; i-- {
			old, now := e.evalTerm(c.Decr[i].E, re), e.evalTerm(c.Decr[i].E, se)
			g = Or(And(Le(IntLit(0), old), Lt(now, old)), And(Eq(now, old), g))
		}
		e.obligation(st, "call-decreases", key+"@"+pos, g, "measure of the recursion: "+c.Decr[0].Src)
	}
	// the callee consumes what it owns
	for _, av := range ownsVals {
		if od := e.isOwnedPtr(av.T); od != nil {
			e.consumeBelow(st, od, av.L[0], av.T.Underlying().(*types.Pointer).Elem(), 0)
		}
	}
	// havoc what the callee may assign
	e.havocAssigns(st, pre, c, se, vars)
	// results
	body0 := body
	names := resultNames(body0)
	sig := body0.Signature
	res := Val{T: rt}
	post := map[string]Val{}
	for n, v := range vars {
		post[n] = v
	}
	for i := 0; i < sig.Results().Len(); i++ {
		t := resolve(sig.Results().At(i).Type(), env)
		rv := e.freshVal("r_"+body0.Name()+"_"+names[i], t)
		st.Assume(e.wellFormed(rv, st.next))
		post[names[i]] = rv
		post[genericResultName(i, sig.Results().Len())] = rv
		res.L = append(res.L, rv.L...)
		if sig.Results().Len() == 1 {
			res = rv
			res.T = rt
		}
	}
	// ownership of results passes to the caller
	for _, g := range c.Gives {
		nodeOnly := false
		name := g
		if strings.HasPrefix(g, "node(") {
			nodeOnly = true
			name = strings.TrimSuffix(strings.TrimPrefix(g, "node("), ")")
		}
		gvs := e.ownedExprs([]string{name}, &SpecEnv{e: e, st: st, old: pre, fr: cfr, vars: post, env: env, pkg: c.Pkg})
		if len(gvs) == 0 {
			continue
		}
		rv := gvs[0]
		od := e.isOwnedPtr(rv.T)
		if od == nil {
			continue
		}
		elem := rv.T.Underlying().(*types.Pointer).Elem()
		if nodeOnly {
			ls := e.lay.Leaves(elem)
			f := make([]Term, len(ls))
			for i, lf := range ls {
				f[i] = e.ctx.Fresh("gn_"+sanitize(lf.Path), lf.Sort)
			}
			st.setChunk(&Chunk{Open: true, Ref: rv.L[0], F: f})
		} else {
			e.addTree(st, od, rv.L[0], e.freshTree(st, od, name))
		}
	}
	se2 := &SpecEnv{e: e, st: st, old: pre, fr: cfr, vars: post, env: env, pkg: c.Pkg}
	callNext := pre.next
	se2.freshBase = &callNext // the callee proved `fresh` relative to ITS entry state
	e.bindLets(c, se2)
	for _, en := range c.Ensures {
		if strings.Contains(en.Src, "sortperm") {
			// the callee's contract speaks of the permutation its sort applied: a fresh ghost for this call
			st.ghost["sortperm"] = Val{T: nil, L: []Term{e.ctx.Fresh("sortperm", ArrSort(SInt, SInt))}}
			break
		}
	}
	for _, en := range c.Ensures {
		st.Assume(e.evalBool(en.E, se2))
	}
	if isAction {
		a := &Action{Kind: body.Name(), Obj: args[0].L[0], Args: args[1:], Pre: pre, Post: st.Clone()}
		for i := 0; i < sig.Results().Len(); i++ {
			a.Res = append(a.Res, post[names[i]])
		}
		e.recordAction(st, a)
	}
	k(st, fr, res)
}

// havocAssigns applies a callee's frame to the caller's state.
func (e *Engine) havocAssigns(st *State, pre *State, c *Contract, se *SpecEnv, vars map[string]Val) {
	// the callee may allocate
	nn := e.ctx.Fresh("next_call", SInt)
	st.Assume(Le(st.next, nn))
	oldNext := st.next
	st.next = nn
	_ = oldNext
	for _, a := range c.Assigns {
		a = strings.TrimSpace(a)
		switch {
		case strings.HasPrefix(a, "elems("):
			inner := strings.TrimSuffix(strings.TrimPrefix(a, "elems("), ")")
			parts := splitTop(inner, ',')
			ex, err := ParseSpecExpr(parts[0])
			if err != nil {
				panic(unsupported("assigns clause %q: %v", a, err))
			}
			sse := *se
			sse.st = pre
			sv := e.evalSpec(ex, &sse)
			var lo, hi Term
			if len(parts) == 3 {
				l, _ := ParseSpecExpr(parts[1])
				h, _ := ParseSpecExpr(parts[2])
				lo = e.evalSpec(l, &sse).L[0]
				hi = e.evalSpec(h, &sse).L[0]
			} else {
				lo, hi = IntLit(0), sv.L[2]
			}
			et := resolve(elemOfSlice(sv.T), nil)
			for i, lf := range e.lay.Leaves(et) {
				h := e.getSliceHeap(st, et, i)
				oldRow := Select(h, sv.L[0])
				fresh := e.ctx.Fresh("row_hv", ArrSort(SInt, lf.Sort))
				newRow := e.ctx.DefArray("row_as", SInt, lf.Sort, func(kk Term) Term {
					in := And(Le(Add(sv.L[1], lo), kk), Lt(kk, Add(sv.L[1], hi)))
					return Ite(in, Select(fresh, kk), Select(oldRow, kk))
				})
				e.setSliceHeap(st, et, i, e.nameTerm(st, e.sliceHeapKey(et, i), Store(h, sv.L[0], newRow)))
			}
		case strings.HasPrefix(a, "*"):
			ex, err := ParseSpecExpr(a[1:])
			if err != nil {
				panic(unsupported("assigns clause %q: %v", a, err))
			}
			pv := e.evalSpec(ex, se)
			loc := e.locOf(pv)
			nv := e.freshVal("deref_hv", loc.T)
			st.Assume(e.wellFormed(nv, st.next))
			e.storeLoc(st, loc, nv)
		case strings.HasPrefix(a, "fields("):
			ex, err := ParseSpecExpr(strings.TrimSuffix(strings.TrimPrefix(a, "fields("), ")"))
			if err != nil {
				panic(unsupported("assigns clause %q: %v", a, err))
			}
			// which object: decided in the callee's PRE state (earlier clauses of this list have already havocked st)
			sse := *se
			sse.st = pre
			pv := e.evalSpec(ex, &sse)
			loc := e.locOf(pv)
			nv := e.freshVal("obj_hv", loc.T)
			st.Assume(e.wellFormed(nv, st.next))
			e.storeLoc(st, loc, nv)
		case a == "maps":
			e.havocMaps(st)
		case a == "chans" || strings.HasPrefix(a, "chan("):
			if e.atomicMode() {
				e.chanInterfere(st, nil) // the callee's channel operations are indistinguishable from interference
			} else {
				e.havocChans(st, chBitRecv|chBitSend|chBitClose)
			}
		case a == "heap":
			e.havocAllHeaps(st)
		case strings.HasPrefix(a, "objects("):
			pfx, _ := objectsPrefix(c.Pkg, a)
			st.objHavoc = append(st.objHavoc[:len(st.objHavoc):len(st.objHavoc)], pfx)
			for _, k := range sortedKeys(st.objHeap) {
				if strings.HasPrefix(k, pfx) {
					st.objHeap[k] = e.ctx.Fresh(k+"_call", st.objHeap[k].Sort)
				}
			}
		case strings.HasPrefix(a, "map("):
			ex, err := ParseSpecExpr(strings.TrimSuffix(strings.TrimPrefix(a, "map("), ")"))
			if err != nil {
				panic(unsupported("assigns clause %q: %v", a, err))
			}
			mv := e.evalSpec(ex, se)
			e.havocMap(st, mv)
		case strings.HasPrefix(a, "ghost("):
			name := strings.TrimSuffix(strings.TrimPrefix(a, "ghost("), ")")
			e.havocGhostNamed(st, name, se)
		case strings.HasPrefix(a, "log("):
			name := strings.TrimSuffix(strings.TrimPrefix(a, "log("), ")")
			e.havocLog(st, e.logKey(name, se))
		default:
			panic(unsupported("assigns clause %q", a))
		}
	}
}

// ---------------------------------------------------------------------------
// callbacks: uninterpreted, pure, deterministic, total functions + call log

func (e *Engine) callSymbolic(st *State, fr *Frame, name string, fnv Val, args []Val, rt types.Type, k callCont) {
	var flat []Term
	flat = append(flat, fnv.L[0])
	for _, a := range args {
		flat = append(flat, a.L...)
	}
	ls := e.lay.Leaves(rt)
	res := Val{T: rt, L: make([]Term, len(ls))}
	for i, lf := range ls {
		res.L[i] = e.ctx.App(fmt.Sprintf("cb_fn_%d_%s", len(flat), sanitize(lf.Path+"_"+string(lf.Sort))), lf.Sort, flat...)
	}
	st.Assume(e.wellFormed(res, st.next))
	e.appendLog(st, name, args, res)
	k(st, fr, res)
}

// getLog returns the ghost call log of a callback (empty at function entry).
func (e *Engine) getLog(st *State, name string, args []Val) *CallLog {
	if l, ok := st.logs[name]; ok {
		return l
	}
	l := &CallLog{Len: IntLit(0)}
	for ai, a := range args {
		var arrs []Term
		for li, lf := range e.lay.Leaves(a.T) {
			arrs = append(arrs, e.ctx.Const(fmt.Sprintf("log_%s_%d_%d_0", sanitize(name), ai, li), ArrSort(SInt, lf.Sort)))
		}
		l.Args = append(l.Args, arrs)
		l.ArgT = append(l.ArgT, a.T)
	}
	st.logs[name] = l
	return l
}

// appendLog records a callback invocation in its ghost sequence.
func (e *Engine) appendLog(st *State, name string, args []Val, res Val) {
	l := e.getLog(st, name, args)
	nl := &CallLog{Len: e.nameTerm(st, "loglen", Add(l.Len, IntLit(1))), ArgT: l.ArgT, Succ: l.Succ}
	if len(res.L) > 0 && res.L[0].Sort == SBool {
		nl.Succ = Add(e.logSucc(l), Ite(res.L[0], IntLit(1), IntLit(0)))
	}
	for ai, a := range args {
		var arrs []Term
		for li := range a.L {
			arrs = append(arrs, e.nameTerm(st, "log_"+name, Store(l.Args[ai][li], l.Len, a.L[li])))
		}
		nl.Args = append(nl.Args, arrs)
	}
	st.logs[name] = nl
}

func (e *Engine) logSucc(l *CallLog) Term {
	if l == nil || l.Succ.S == "" {
		return IntLit(0)
	}
	return l.Succ
}

// logResult: a logged static call (`opt logcalls`) returned: count it when its first result is true.
func (e *Engine) logResult(st *State, callee *ssa.Function, res Val) {
	if e.rootC == nil || len(res.L) == 0 || res.L[0].Sort != SBool {
		return
	}
	for _, l := range e.rootC.Extra["logcalls"] {
		for _, n := range strings.Fields(l) {
			if n == shortFuncName(callee) {
				if cl, ok := st.logs[n]; ok {
					nl := *cl
					nl.Succ = Add(e.logSucc(cl), Ite(res.L[0], IntLit(1), IntLit(0)))
					st.logs[n] = &nl
				}
			}
		}
	}
}

func (e *Engine) logLen(st *State, name string) Term {
	if l, ok := st.logs[name]; ok {
		return l.Len
	}
	return IntLit(0)
}

// ---------------------------------------------------------------------------
// builtins

func (e *Engine) builtin(st *State, fr *Frame, name string, args []Val, rt types.Type, pos string, call *ssa.Call, k callCont) {
	switch name {
	case "len":
		a := args[0]
		if mapTypeOf(a.T) != nil {
			k(st, fr, Val{T: rt, L: []Term{e.mapCard(st, a)}})
			return
		}
		switch a.T.Underlying().(type) {
		case *types.Chan:
			k(st, fr, Val{T: rt, L: []Term{e.chanLen(st, a)}})
			return
		case *types.Basic:
			ln := e.ctx.App("strlen", SInt, a.L[0])
			st.Assume(Le(IntLit(0), ln))
			k(st, fr, Val{T: rt, L: []Term{ln}})
			return
		}
		if len(a.L) == 4 {
			k(st, fr, Val{T: rt, L: []Term{a.L[2]}})
			return
		}
		if len(a.L) == 1 { // map / chan behind a type parameter
			if tp, ok := a.T.(*types.TypeParam); ok {
				if _, isMap := coreOf(tp).(*types.Map); isMap {
					k(st, fr, Val{T: rt, L: []Term{e.mapCard(st, a)}})
					return
				}
			}
		}
		panic(unsupported("len of %s", a.T))
	case "cap":
		a := args[0]
		if len(a.L) == 4 {
			k(st, fr, Val{T: rt, L: []Term{a.L[3]}})
			return
		}
		panic(unsupported("cap of %s", a.T))
	case "append":
		e.builtinAppend(st, fr, args, rt, pos, k)
	case "copy":
		n := e.builtinCopy(st, args[0], args[1])
		k(st, fr, Val{T: rt, L: []Term{n}})
	case "delete":
		e.mapDelete(st, args[0], args[1])
		k(st, fr, Val{T: types.NewTuple()})
	case "close":
		e.chanClose(st, fr, args[0], pos)
		k(st, fr, Val{T: types.NewTuple()})
	case "min", "max":
		v := args[0]
		for _, a := range args[1:] {
			var lt Val
			if name == "min" {
				lt = e.binop(st, tokenLSS, a, v, types.Typ[types.Bool], pos)
			} else {
				lt = e.binop(st, tokenLSS, v, a, types.Typ[types.Bool], pos)
			}
			nv := Val{T: v.T, L: make([]Term, len(v.L))}
			for i := range v.L {
				nv.L[i] = Ite(lt.L[0], a.L[i], v.L[i])
			}
			v = nv
		}
		k(st, fr, v)
	case "print", "println":
		k(st, fr, Val{T: types.NewTuple()})
	case "ssa:wrapnilchk":
		e.obligationPanic(st, "nil", pos, Not(Eq(args[0].L[0], IntLit(0))))
		k(st, fr, args[0])
	default:
		panic(unsupported("builtin %s", name))
	}
}

// builtinCopy models copy(dst, src) as a memmove on the element heap.
func (e *Engine) builtinCopy(st *State, dst, src Val) Term {
	n := Ite(Lt(dst.L[2], src.L[2]), dst.L[2], src.L[2])
	nn := e.nameTerm(st, "copyn", n)
	et := resolve(elemOfSlice(dst.T), nil)
	e.moveElems(st, et, dst.L[0], dst.L[1], src.L[0], src.L[1], nn)
	return nn
}

// moveElems: H[dbase][doff+k] := Hold[sbase][soff+k] for 0<=k<n.
func (e *Engine) moveElems(st *State, et types.Type, dbase, doff, sbase, soff, n Term) {
	for i, lf := range e.lay.Leaves(et) {
		h := e.getSliceHeap(st, et, i)
		srcRow := Select(h, sbase)
		dstRow := Select(h, dbase)
		newRow := e.ctx.DefArray("row_cp", SInt, lf.Sort, func(kk Term) Term {
			in := And(Le(doff, kk), Lt(kk, Add(doff, n)))
			return Ite(in, Select(srcRow, Add(Sub(kk, doff), soff)), Select(dstRow, kk))
		})
		e.setSliceHeap(st, et, i, e.nameTerm(st, e.sliceHeapKey(et, i), Store(h, dbase, newRow)))
	}
}

func (e *Engine) builtinAppend(st *State, fr *Frame, args []Val, rt types.Type, pos string, k callCont) {
	s := args[0]
	vs := args[1] // always a slice in SSA (variadic packed)
	et := resolve(elemOfSlice(rt), nil)
	n := vs.L[2]
	newLen := e.nameTerm(st, "applen", Add(s.L[2], n))
	// make the position of the first appended element a ground idx-term (instantiation seed for element quantifiers)
	st.Assume(Eq(e.idxWrap(s.L[2]), s.L[2]))
	// in place
	st2 := st.Clone()
	fr2 := fr.cloneForPath()
	fits := Le(newLen, s.L[3])
	{
		st.Assume(fits)
		st.path = append(st.path, "a")
		// when nothing is appended to a nil slice the result stays nil
		e.moveElems(st, et, s.L[0], Add(s.L[1], s.L[2]), vs.L[0], vs.L[1], n)
		res := Val{T: rt, L: []Term{s.L[0], s.L[1], newLen, s.L[3]}}
		k(st, fr, res)
	}
	{
		st2.Assume(Not(fits))
		st2.path = append(st2.path, "g")
		base := st2.next
		st2.next = e.nameTerm(st2, "next", Add(st2.next, IntLit(1)))
		ncap := e.ctx.Fresh("newcap", SInt)
		st2.Assume(Le(newLen, ncap))
		for i, lf := range e.lay.Leaves(et) {
			h := e.getSliceHeap(st2, et, i)
			oldRow := Select(h, s.L[0])
			srcRow := Select(h, vs.L[0])
			z := e.zeroLeaf(lf)
			newRow := e.ctx.DefArray("row_ap", SInt, lf.Sort, func(kk Term) Term {
				inOld := And(Le(IntLit(0), kk), Lt(kk, s.L[2]))
				inNew := And(Le(s.L[2], kk), Lt(kk, newLen))
				return Ite(inOld, Select(oldRow, Add(s.L[1], kk)), Ite(inNew, Select(srcRow, Add(vs.L[1], Sub(kk, s.L[2]))), z))
			})
			e.setSliceHeap(st2, et, i, e.nameTerm(st2, e.sliceHeapKey(et, i), Store(h, base, newRow)))
		}
		res := Val{T: rt, L: []Term{base, IntLit(0), newLen, ncap}}
		k(st2, fr2, res)
	}
}

// ---------------------------------------------------------------------------
// interfaces

func (e *Engine) makeInterface(st *State, v Val, it types.Type) Val {
	tag := e.lay.TypeID(v.T)
	box := e.box(v)
	out := Val{T: it, L: []Term{tag, box}}
	// remember the concrete value for devirtualisation
	out.Fn = v.Fn
	if v.Fn == nil {
		cp := v
		out.Fn = &FuncVal{Bound: &cp}
	}
	return out
}

// box injects a value into the universal Box sort (injective per type).
func (e *Engine) box(v Val) Term {
	bs := e.ctx.DeclareSort("Box")
	key := typeKey(v.T)
	if tp, ok := v.T.(*types.TypeParam); ok {
		key = "tp_" + tp.Obj().Name()
	}
	var sorts []Sort
	for _, l := range v.L {
		sorts = append(sorts, l.Sort)
	}
	name := "box_" + key
	f := e.ctx.Fun(name, sorts, bs)
	if len(v.L) == 0 {
		return Term{f, bs}
	}
	var as []string
	for _, l := range v.L {
		as = append(as, l.S)
	}
	// injectivity via inverse functions
	var ps, xs []string
	for i, s := range sorts {
		ps = append(ps, fmt.Sprintf("(x%d %s)", i, s))
		xs = append(xs, fmt.Sprintf("x%d", i))
	}
	for i, s := range sorts {
		inv := e.ctx.Fun(fmt.Sprintf("unbox_%s_%d", key, i), []Sort{bs}, s)
		e.ctx.Axiom(fmt.Sprintf("inj_%s_%d", key, i), fmt.Sprintf("(forall (%s) (! (= (%s (%s %s)) x%d) :pattern ((%s %s))))", strings.Join(ps, " "), inv, f, strings.Join(xs, " "), i, f, strings.Join(xs, " ")))
	}
	return Term{"(" + f + " " + strings.Join(as, " ") + ")", bs}
}

func (e *Engine) unbox(b Term, t types.Type) Val {
	key := typeKey(t)
	if tp, ok := t.(*types.TypeParam); ok {
		key = "tp_" + tp.Obj().Name()
	}
	ls := e.lay.Leaves(t)
	// make sure the box function and its inverses exist
	e.box(e.zeroVal(t))
	out := Val{T: t, L: make([]Term, len(ls))}
	for i, lf := range ls {
		out.L[i] = T(lf.Sort, "(unbox_%s_%d %s)", key, i, b.S)
	}
	return out
}

func (e *Engine) execTypeAssert(st *State, fr *Frame, x *ssa.TypeAssert, pos string) {
	iv := e.operand(st, fr, x.X)
	at := resolve(x.AssertedType, fr.env)
	rt := resolve(x.Type(), fr.env)
	if _, isIface := at.Underlying().(*types.Interface); isIface {
		if _, isTP := at.(*types.TypeParam); !isTP {
			// assertion to an interface type: does the dynamic type have the methods?
			has := e.implementsTerm(at, iv.L[0])
			ok := And(Not(Eq(iv.L[0], IntLit(0))), has)
			if x.CommaOk {
				res := Val{T: rt, L: []Term{Ite(ok, iv.L[0], IntLit(0)), iv.L[1], ok}}
				fr.regs[x] = res
			} else {
				e.obligationPanic(st, "type-assert", pos, ok)
				fr.regs[x] = Val{T: rt, L: iv.L, Fn: iv.Fn}
			}
			return
		}
	}
	tag := e.lay.TypeID(at)
	if _, isTP := at.(*types.TypeParam); isTP {
		// the (symbolic) id of a type parameter's type is the id of a type: never the tag 0 of the nil interface
		st.Assume(Lt(IntLit(0), tag))
	}
	ok := Eq(iv.L[0], tag)
	v := e.unbox(iv.L[1], at)
	if x.CommaOk {
		z := e.zeroVal(at)
		res := Val{T: rt}
		for i := range v.L {
			res.L = append(res.L, Ite(ok, v.L[i], z.L[i]))
		}
		res.L = append(res.L, ok)
		// as below: when the dynamic type is T, the payload is the box of the asserted value
		st.Assume(Implies(ok, Eq(e.box(Val{T: at, L: v.L}), iv.L[1])))
		fr.regs[x] = res
	} else {
		e.obligationPanic(st, "type-assert", pos, ok)
		// the payload of an interface value of dynamic type T is the box of the asserted value
		st.Assume(Eq(e.box(Val{T: at, L: v.L}), iv.L[1]))
		v.T = rt
		fr.regs[x] = v
	}
}

// invoke: dynamic dispatch on an interface value.
func (e *Engine) invoke(st *State, fr *Frame, recv Val, m *types.Func, args []Val, rt types.Type, pos string, k callCont) {
	// known concrete receiver (MakeInterface in the same function): devirtualise
	if recv.Fn != nil && recv.Fn.Bound != nil && recv.Fn.Fn == nil {
		cv := *recv.Fn.Bound
		ms := e.prog.MethodSets.MethodSet(cv.T)
		if sel := ms.Lookup(m.Pkg(), m.Name()); sel != nil {
			fn, menv := e.methodOf(sel, cv.T, fr.env)
			if fn != nil {
				e.callStatic(st, fr, fn, menv, nil, append([]Val{cv}, args...), rt, pos, k)
				return
			}
		}
	}
	if m.FullName() == "(context.Context).Done" {
		e.trustedUsed["assumed: ctx.Done() returns one environment channel (or nil) per context"] = true
		k(st, fr, e.ctxDone(st, recv, rt))
		return
	}
	if h := e.ifaceModel(recv, m); h != nil {
		h(e, st, fr, recv, m, args, rt, pos, k)
		return
	}
	if e.pureMethod(m.Name()) && len(args) == 0 && len(recv.L) == 2 {
		// `opt puremethods M`: a niladic method of an unknown dynamic type is ASSUMED to be a pure, total function of
		// its receiver (dynamic type tag and payload)
		e.trustedUsed["assumed: method "+m.Name()+"() of an unknown dynamic type is a pure total function of its receiver"] = true
		e.obligationPanic(st, "nil-iface", pos, Not(Eq(recv.L[0], IntLit(0))))
		k(st, fr, e.dynCall(m.Name(), recv, rt))
		return
	}
	panic(unsupported("interface method call %s.%s without a contract", recv.T, m.Name()))
}

// ownedExprs evaluates the pointer-valued expressions of an owns/gives clause.
func (e *Engine) ownedExprs(exprs []string, se *SpecEnv) []Val {
	var out []Val
	for _, x := range exprs {
		ex, err := ParseSpecExpr(x)
		if err != nil {
			panic(unsupported("owns/gives %q: %v", x, err))
		}
		out = append(out, e.evalSpec(ex, se))
	}
	return out
}

func (e *Engine) pureMethod(name string) bool {
	if e.rootC == nil {
		return false
	}
	for _, l := range e.rootC.Extra["puremethods"] {
		for _, n := range strings.Fields(l) {
			if n == name {
				return true
			}
		}
	}
	return false
}

// dynCall: the result of the pure niladic method `name` on the interface value recv.
func (e *Engine) dynCall(name string, recv Val, rt types.Type) Val {
	ls := e.lay.Leaves(rt)
	res := Val{T: rt, L: make([]Term, len(ls))}
	for i, lf := range ls {
		res.L[i] = e.ctx.App(fmt.Sprintf("dyn_%s_%d_%s", name, i, sanitize(string(lf.Sort))), lf.Sort, recv.L[0], recv.L[1])
	}
	return res
}

// implementsSym: the predicate "the dynamic type has the methods of interface type at".
func (e *Engine) implementsTerm(at types.Type, tag Term) Term {
	return e.ctx.App("implements_"+typeKey(at), SBool, tag)
}
