package main

// Ownership chunks for heap-allocated recursive structures (the AVL tree's nodes), in the style of
// VeriFast's symbolic execution. A pointer to an owned struct type is not read through the global field
// arrays; instead every path carries a chunk store:
//
//   closed chunk  Tree(ref; t)      the whole subtree rooted at ref is owned and its abstract value is the
//                                   algebraic term t (ref == nil <=> t == Leaf)
//   open chunk    Pts(ref; fields)  one node is owned with the given field values (children are separate chunks)
//
// Dereferencing opens a chunk, passing a pointer to a callee that `owns` it closes (folds) and consumes it,
// results that are owned come back as closed chunks. A pointer without a chunk cannot be dereferenced
// (obligation `ownership`). Separation gives the frame: whatever a callee does not consume is untouched.

import (
	"os"
	"time"
	"crypto/sha256"
	"sync"
	"fmt"
	"go/types"
	"sort"
	"strings"
)

type OwnedDecl struct {
	Type   string   // struct type name
	ADT    string   // view datatype
	Ctor   string   // constructor of the non-empty case
	Nil    string   // constructor for nil
	Fields []string // struct field behind each constructor argument, in constructor order
	Pkg    string
}

type ADTDecl struct {
	Name  string
	Ctors []ADTCtor
	Pkg   string
}

type ADTCtor struct {
	Name   string
	Fields []BoundVar
}

type Chunk struct {
	Open bool
	Ref  Term
	T    Term   // closed: the view
	F    []Term // open: leaves of the struct, in layout order
}

func (e *Engine) ownedDecl(t types.Type) *OwnedDecl {
	nt, ok := t.(*types.Named)
	if !ok || nt.Obj().Pkg() == nil {
		return nil
	}
	return e.cs.Owned[nt.Obj().Pkg().Name()+"."+nt.Obj().Name()]
}

func (e *Engine) isOwnedPtr(t types.Type) *OwnedDecl {
	if t == nil {
		return nil
	}
	pt, ok := t.Underlying().(*types.Pointer)
	if !ok {
		return nil
	}
	return e.ownedDecl(pt.Elem())
}

// adtType returns the placeholder Go type standing for a declared algebraic datatype.
func (e *Engine) adtType(name string) types.Type {
	if t, ok := e.adtTypes[name]; ok {
		return t
	}
	t := types.NewNamed(types.NewTypeName(0, nil, "adt:"+name, nil), types.NewStruct(nil, nil), nil)
	e.adtTypes[name] = t
	return t
}

func adtNameOf(t types.Type) string {
	if nt, ok := t.(*types.Named); ok && strings.HasPrefix(nt.Obj().Name(), "adt:") {
		return strings.TrimPrefix(nt.Obj().Name(), "adt:")
	}
	return ""
}

// declareADT emits the datatype declaration once (element sorts must exist already).
func (e *Engine) declareADT(name string, se *SpecEnv) Sort {
	d := e.cs.ADTs[name]
	if d == nil {
		panic(unsupported("unknown datatype %s", name))
	}
	if e.ctx.seen["adt:"+name] {
		return Sort(name)
	}
	var cs []string
	for _, c := range d.Ctors {
		s := "(" + c.Name
		for _, f := range c.Fields {
			var fs Sort
			if f.Type == name {
				fs = Sort(name)
			} else {
				ls := e.lay.Leaves(e.specType(f.Type, se))
				fs = ls[0].Sort
			}
			s += fmt.Sprintf(" (%s_%s %s)", c.Name, f.Name, fs)
		}
		cs = append(cs, s+")")
	}
	e.ctx.mu.Lock()
	e.ctx.seen["adt:"+name] = true
	e.ctx.decls = append(e.ctx.decls, Decl{Name: "adt:" + name, Text: fmt.Sprintf("(declare-datatypes ((%s 0)) ((%s)))", name, strings.Join(cs, " "))})
	e.ctx.mu.Unlock()
	return Sort(name)
}

// ---------------------------------------------------------------------------

func (st *State) chunk(ref Term) *Chunk {
	return st.chunks[ref.S]
}

// chunkFor finds the chunk of a reference: syntactically, or else one whose reference is provably equal
// under the path condition (a quick solver query per candidate; only on a syntactic miss).
func (e *Engine) chunkFor(st *State, ref Term) *Chunk {
	if c := st.chunks[ref.S]; c != nil {
		return c
	}
	if ref.S == "0" || st.dead {
		return nil
	}
	for _, k := range sortedChunkKeys(st.chunks) {
		c := st.chunks[k]
		if e.entails(st, Eq(ref, c.Ref)) {
			// re-key the chunk under the new name as well
			nc := *c
			nc.Ref = ref
			st.dropChunk(c.Ref)
			st.setChunk(&nc)
			return st.chunks[ref.S]
		}
	}
	return nil
}

func sortedChunkKeys(m map[string]*Chunk) []string {
	var ks []string
	for k := range m {
		ks = append(ks, k)
	}
	sort.Strings(ks)
	return ks
}

// entails: is the formula a consequence of the path condition? (synchronous, short timeout; "no" when unsure)
func (e *Engine) entails(st *State, f Term) bool {
	o := &Obligation{Name: "entails", Assume: st.pc, Goal: f, Ctx: e.ctx}
	// the quantifier-free part decides almost every chunk identification at once (unsat there is unsat in full);
	// the full path condition is only consulted when GOVC_ENTAIL_FULL is set
	script := o.script("cover-noq", false)
	if os.Getenv("GOVC_ENTAIL_FULL") != "" {
		script = o.script("q", false)
	}
	h := sha256.Sum256([]byte(script))
	entailMu.Lock()
	r, ok := entailCache[h]
	entailMu.Unlock()
	if ok {
		return r
	}
	t0 := time.Now()
	status, _, _ := runSolver(solvers[0], script, 1500, optSeed)
	if os.Getenv("GOVC_DEBUG_ENTAIL") != "" {
		fmt.Fprintf(os.Stderr, "entail %s %s %.2fs %s\n", e.funcName, status, time.Since(t0).Seconds(), f.S)
	}
	entailMu.Lock()
	entailCache[h] = status == "unsat"
	entailMu.Unlock()
	return status == "unsat"
}

func (st *State) setChunk(c *Chunk) {
	n := make(map[string]*Chunk, len(st.chunks)+1)
	for k, v := range st.chunks {
		n[k] = v
	}
	n[c.Ref.S] = c
	st.chunks = n
}

func (st *State) dropChunk(ref Term) {
	n := make(map[string]*Chunk, len(st.chunks))
	for k, v := range st.chunks {
		if k != ref.S {
			n[k] = v
		}
	}
	st.chunks = n
}

func (e *Engine) ownedSpecEnv(st *State) *SpecEnv {
	fr := e.rootFr
	if fr == nil {
		fr = &Frame{}
	}
	return &SpecEnv{e: e, st: st, old: st, fr: fr, env: e.rootEnv, pkg: e.rootC.Pkg, tnames: e.lemmaTNames}
}

// addTree registers a closed chunk for ref with view t.
func (e *Engine) addTree(st *State, od *OwnedDecl, ref Term, t Term) {
	st.Assume(Eq(Eq(ref, IntLit(0)), T(SBool, "((_ is %s) %s)", od.Nil, t.S)))
	st.setChunk(&Chunk{Ref: ref, T: t})
}

func (e *Engine) freshTree(st *State, od *OwnedDecl, hint string) Term {
	sort := e.declareADT(od.ADT, e.ownedSpecEnv(st))
	return e.ctx.Fresh("t_"+hint, sort)
}

// fieldLayout: for each constructor argument, the leaf offset of its struct field and whether it is a child pointer.
func (e *Engine) ownedLayout(od *OwnedDecl, stt *types.Struct) (offs []int, child []bool) {
	d := e.cs.ADTs[od.ADT]
	var ctor *ADTCtor
	for i := range d.Ctors {
		if d.Ctors[i].Name == od.Ctor {
			ctor = &d.Ctors[i]
		}
	}
	for ai, fname := range od.Fields {
		found := false
		for i := 0; i < stt.NumFields(); i++ {
			if stt.Field(i).Name() == fname {
				off, _ := e.lay.fieldRange(stt, i)
				offs = append(offs, off)
				child = append(child, ctor.Fields[ai].Type == od.ADT)
				found = true
			}
		}
		if !found {
			panic(unsupported("owned %s: no field %s", od.Type, fname))
		}
	}
	return
}

// openChunk makes the node at ref individually accessible.
func (e *Engine) openChunk(st *State, od *OwnedDecl, ref Term, elem types.Type, pos string) *Chunk {
	c := e.chunkFor(st, ref)
	if c == nil {
		e.obligation(st, "ownership", pos, False, "dereference of a "+od.Type+" pointer this code does not own (no chunk for "+ref.S+")")
		// continue with an unconstrained node so that later obligations are still generated
		c = &Chunk{Ref: ref, T: e.freshTree(st, od, "unowned")}
		st.setChunk(c)
	}
	if c.Open {
		return c
	}
	stt := elem.Underlying().(*types.Struct)
	ls := e.lay.Leaves(elem)
	f := make([]Term, len(ls))
	for i, lf := range ls {
		f[i] = e.ctx.Fresh("nd_"+sanitize(lf.Path), lf.Sort)
	}
	offs, child := e.ownedLayout(od, stt)
	// view == Ctor(args)
	var args []string
	for ai := range od.Fields {
		if child[ai] {
			ct := e.freshTree(st, od, od.Fields[ai])
			e.addTree(st, od, f[offs[ai]], ct)
			args = append(args, ct.S)
		} else {
			args = append(args, f[offs[ai]].S)
		}
	}
	st.Assume(T(SBool, "(= %s (%s %s))", c.T.S, od.Ctor, strings.Join(args, " ")))
	nc := &Chunk{Open: true, Ref: ref, F: f}
	st.setChunk(nc)
	return nc
}

// viewOf computes the abstract value of the structure rooted at ref without changing the chunk store.
func (e *Engine) viewOf(st *State, od *OwnedDecl, ref Term, elem types.Type, depth int) (Term, bool) {
	if ref.S == "0" {
		e.declareADT(od.ADT, e.ownedSpecEnv(st))
		return Term{od.Nil, Sort(od.ADT)}, true
	}
	c := e.chunkFor(st, ref)
	if c == nil || depth > 12 {
		return Term{}, false
	}
	if !c.Open {
		return c.T, true
	}
	stt := elem.Underlying().(*types.Struct)
	offs, child := e.ownedLayout(od, stt)
	var args []string
	for ai := range od.Fields {
		if child[ai] {
			ct, ok := e.viewOf(st, od, c.F[offs[ai]], elem, depth+1)
			if !ok {
				return Term{}, false
			}
			args = append(args, ct.S)
		} else {
			args = append(args, c.F[offs[ai]].S)
		}
	}
	return T(Sort(od.ADT), "(%s %s)", od.Ctor, strings.Join(args, " ")), true
}

// closeChunk folds the structure rooted at ref into one closed chunk and returns its view.
func (e *Engine) closeChunk(st *State, od *OwnedDecl, ref Term, elem types.Type, pos string) Term {
	t, ok := e.viewOf(st, od, ref, elem, 0)
	if !ok {
		e.obligation(st, "ownership", pos, False, "cannot give up ownership of "+ref.S+": this code does not own the whole structure below it")
		return e.freshTree(st, od, "unowned")
	}
	e.consumeBelow(st, od, ref, elem, 0)
	if ref.S != "0" {
		// name the view so that terms stay small
		if len(t.S) > 40 {
			nt := e.ctx.Fresh("t_fold", t.Sort)
			st.Assume(Eq(nt, t))
			t = nt
		}
		st.setChunk(&Chunk{Ref: ref, T: t})
	}
	return t
}

func (e *Engine) consumeBelow(st *State, od *OwnedDecl, ref Term, elem types.Type, depth int) {
	c := e.chunkFor(st, ref)
	if c == nil || depth > 12 {
		return
	}
	if c.Open {
		stt := elem.Underlying().(*types.Struct)
		offs, child := e.ownedLayout(od, stt)
		for ai := range od.Fields {
			if child[ai] {
				e.consumeBelow(st, od, c.F[offs[ai]], elem, depth+1)
			}
		}
	}
	st.dropChunk(ref)
}

// newNode: allocation of an owned struct.
func (e *Engine) newOwned(st *State, od *OwnedDecl, ref Term, elem types.Type) {
	z := e.zeroVal(elem)
	st.setChunk(&Chunk{Open: true, Ref: ref, F: z.L})
}

var (
	entailMu    sync.Mutex
	entailCache = map[[32]byte]bool{}
)
