package main

// Abstract maps: every set (maps.Set, *sync2.Set, any other sets.Set implementation) and every sync2.Map
// is viewed as one row of the Go-map model, at a reference derived from the object's identity. Interface
// method contracts and the spec loop that stands for Range(f) calls live here.

import (
	"fmt"
	"go/token"
	"go/types"
	"sort"

	"golang.org/x/tools/go/ssa"
)

func namedOf(t types.Type) (*types.Named, bool) {
	if pt, ok := t.(*types.Pointer); ok {
		t = pt.Elem()
	}
	nt, ok := t.(*types.Named)
	return nt, ok
}

func isNamed(t types.Type, pkg, name string) bool {
	nt, ok := t.(*types.Named)
	return ok && nt.Obj().Name() == name && nt.Obj().Pkg() != nil && nt.Obj().Pkg().Name() == pkg
}

// absMapOf: the abstract map of a pointer to a sync2.Map[K,V].
func (e *Engine) absMapOf(p Val) Val {
	pt, ok := p.T.Underlying().(*types.Pointer)
	if !ok {
		panic(unsupported("absmap of %s", p.T))
	}
	nt, ok := pt.Elem().(*types.Named)
	if !ok || nt.Obj().Name() != "Map" || nt.TypeArgs().Len() != 2 {
		panic(unsupported("absmap of %s", p.T))
	}
	k := resolve(nt.TypeArgs().At(0), nil)
	v := resolve(nt.TypeArgs().At(1), nil)
	return Val{T: types.NewMap(k, v), L: []Term{p.L[0]}}
}

// fieldSubRef returns the pointer to the struct field `name` embedded by value in *p.
func (e *Engine) fieldSubRef(p Val, name string) Val {
	loc := e.locOf(p)
	stt, ok := loc.T.Underlying().(*types.Struct)
	if !ok {
		panic(unsupported("field %s of %s", name, loc.T))
	}
	for i := 0; i < stt.NumFields(); i++ {
		if stt.Field(i).Name() == name {
			off, _ := e.lay.fieldRange(stt, i)
			ft := resolve(stt.Field(i).Type(), nil)
			return Val{T: types.NewPointer(ft), L: []Term{e.subRef(loc.Ref, loc.Root, loc.Off+off)}}
		}
	}
	panic(unsupported("no field %s in %s", name, loc.T))
}

// setMapOf: the abstract map (element -> struct{}) of a set value.
func (e *Engine) setMapOf(st *State, v Val) Val {
	elemOfSet := func(t types.Type) types.Type {
		nt, _ := namedOf(t)
		if nt == nil || nt.TypeArgs().Len() != 1 {
			panic(unsupported("setmap of %s", t))
		}
		return resolve(nt.TypeArgs().At(0), nil)
	}
	empty := types.NewStruct(nil, nil)
	switch {
	case isNamed(v.T, "maps", "Set"):
		return Val{T: types.NewMap(elemOfSet(v.T), empty), L: []Term{v.L[0]}}
	case func() bool { nt, ok := namedOf(v.T); _, isPtr := v.T.(*types.Pointer); return ok && isPtr && nt.Obj().Name() == "Set" && nt.Obj().Pkg().Name() == "sync2" }():
		m := e.fieldSubRef(v, "m")
		return Val{T: types.NewMap(elemOfSet(v.T), empty), L: []Term{m.L[0]}}
	case isNamed(v.T, "sets", "Set"):
		el := elemOfSet(v.T)
		mt := types.NewMap(el, empty)
		// by dynamic type
		mapsSet, syncSet := e.setImplTypes(el)
		var cases []struct {
			tag Term
			ref Term
		}
		if mapsSet != nil {
			cases = append(cases, struct{ tag, ref Term }{e.lay.TypeID(mapsSet), e.unbox(v.L[1], mapsSet).L[0]})
		}
		if syncSet != nil {
			pv := e.unbox(v.L[1], syncSet)
			cases = append(cases, struct{ tag, ref Term }{e.lay.TypeID(syncSet), e.fieldSubRef(pv, "m").L[0]})
		}
		// any other implementation: an abstract object identified by its payload
		e.ctx.Fun("otherset", []Sort{v.L[1].Sort}, SInt)
		other := T(SInt, "(sub (otherset %s) 0)", v.L[1].S)
		e.subRef(IntLit(1), types.Typ[types.Int], 0) // declares sub and its axioms
		e.ctx.Axiom("otherset_pre", fmt.Sprintf("(forall ((b %s)) (! (and (< 0 (otherset b)) (< (otherset b) %s)) :pattern ((otherset b))))", v.L[1].Sort, e.next0.S))
		ref := other
		for i := len(cases) - 1; i >= 0; i-- {
			ref = Ite(Eq(v.L[0], cases[i].tag), cases[i].ref, ref)
		}
		return Val{T: mt, L: []Term{ref}}
	}
	panic(unsupported("setmap of %s", v.T))
}

// setImplTypes instantiates the two implementations in the repository for an element type.
func (e *Engine) setImplTypes(el types.Type) (mapsSet, syncSet types.Type) {
	inst := func(pkg, name string, ptr bool) types.Type {
		p := e.pkgs[pkg]
		if p == nil {
			return nil
		}
		m, ok := p.Members[name].(*ssa.Type)
		if !ok {
			return nil
		}
		nt := m.Type().(*types.Named)
		t, err := types.Instantiate(typeCtx, nt, []types.Type{el}, false)
		if err != nil {
			return nil
		}
		if ptr {
			return types.NewPointer(t)
		}
		return t
	}
	return inst("maps", "Set", false), inst("sync2", "Set", true)
}

// initAbstract gives freshly allocated objects their abstract state: a zero sync2.Map is an empty map.
func (e *Engine) initAbstract(st *State, ptr Val, t types.Type, depth int) {
	if depth > 3 {
		return
	}
	nt, ok := t.(*types.Named)
	if !ok {
		return
	}
	if nt.Obj().Name() == "Map" && nt.Obj().Pkg() != nil && nt.Obj().Pkg().Name() == "sync2" && nt.TypeArgs().Len() == 2 {
		am := e.absMapOf(Val{T: types.NewPointer(t), L: ptr.L})
		mi := e.mapInfo(am.T)
		e.touchMap(st, mi)
		empty := T(ArrSort(mi.ksort, SBool), "((as const %s) false)", ArrSort(mi.ksort, SBool))
		st.mapHeap[e.mapDomKey(mi)] = e.nameTerm(st, e.mapDomKey(mi), Store(e.mapDom(st, mi), am.L[0], empty))
		st.mapHeap[e.mapCardKey(mi)] = e.nameTerm(st, e.mapCardKey(mi), Store(e.mapCardHeap(st, mi), am.L[0], IntLit(0)))
		return
	}
	stt, ok := t.Underlying().(*types.Struct)
	if !ok {
		return
	}
	for i := 0; i < stt.NumFields(); i++ {
		ft := resolve(stt.Field(i).Type(), nil)
		if fnt, ok := ft.(*types.Named); ok {
			if _, isStruct := fnt.Underlying().(*types.Struct); isStruct {
				sub := e.fieldSubRef(Val{T: types.NewPointer(t), L: ptr.L}, stt.Field(i).Name())
				e.initAbstract(st, sub, ft, depth+1)
			}
		}
	}
}

// ---------------------------------------------------------------------------
// interface method contracts

func ifaceKey(t types.Type, m *types.Func) string {
	nt, ok := t.(*types.Named)
	if !ok || nt.Obj().Pkg() == nil {
		return ""
	}
	return nt.Obj().Pkg().Name() + "." + nt.Obj().Name() + "." + m.Name()
}

func (e *Engine) ifaceModel(recv Val, m *types.Func) ifaceFn {
	key := ifaceKey(recv.T, m)
	c, ok := e.cs.Funcs[key]
	if !ok {
		return nil
	}
	return func(e *Engine, st *State, fr *Frame, recv Val, m *types.Func, args []Val, rt types.Type, pos string, k callCont) {
		e.obligationPanic(st, "nil-interface", pos, Not(Eq(recv.L[0], IntLit(0))))
		sig := m.Type().(*types.Signature)
		// type parameters of the interface are bound through the receiver's type arguments
		env := TEnv{}
		tnames := map[string]types.Type{}
		if nt, ok := recv.T.(*types.Named); ok {
			tps := nt.Origin().TypeParams()
			for i := 0; i < tps.Len() && i < nt.TypeArgs().Len(); i++ {
				env[tps.At(i)] = resolve(nt.TypeArgs().At(i), nil)
				tnames[tps.At(i).Obj().Name()] = env[tps.At(i)]
			}
		}
		vars := map[string]Val{"this": recv}
		var names []string
		for i := 0; i < sig.Params().Len(); i++ {
			n := sig.Params().At(i).Name()
			if n == "" || n == "_" {
				n = fmt.Sprintf("arg%d", i)
			}
			names = append(names, n)
			if i < len(args) {
				vars[n] = args[i]
			}
		}
		e.callees[key] = true
		if c.Mode == "rangeloop" {
			e.rangeLoop(st, fr, c, key, vars, args, pos, k)
			return
		}
		e.applyContract(st, fr, c, key, vars, sig, env, tnames, rt, pos, k)
	}
}

// applyContract: the modular call rule for a contract given as bare clauses (interface methods).
func (e *Engine) applyContract(st *State, fr *Frame, c *Contract, key string, vars map[string]Val, sig *types.Signature, env TEnv, tnames map[string]types.Type, rt types.Type, pos string, k callCont) {
	cfr := &Frame{fn: fr.fn, env: env, regs: map[ssa.Value]Val{}, names: map[string]NameBinding{}, parent: fr, depth: fr.depth + 1}
	pre := st.Clone()
	se := &SpecEnv{e: e, st: st, old: pre, fr: cfr, vars: vars, env: env, pkg: c.Pkg, tnames: tnames}
	e.bindLets(c, se)
	for i, r := range c.Requires {
		g := e.evalBool(r.E, se)
		lab := r.Label
		if lab == "" {
			lab = fmt.Sprint(i)
		}
		e.obligation(st, "call-pre", key+"."+lab+"@"+pos, g, r.Src)
		st.Assume(g)
	}
	e.havocAssigns(st, pre, c, se, vars)
	post := map[string]Val{}
	for n, v := range vars {
		post[n] = v
	}
	res := Val{T: rt}
	for i := 0; i < sig.Results().Len(); i++ {
		t := resolve(sig.Results().At(i).Type(), env)
		name := sig.Results().At(i).Name()
		if name == "" || name == "_" {
			if sig.Results().Len() == 1 {
				name = "result"
			} else {
				name = fmt.Sprintf("result%d", i)
			}
		}
		rv := e.freshVal("r_"+sanitize(key)+"_"+name, t)
		st.Assume(e.wellFormed(rv, st.next))
		post[name] = rv
		res.L = append(res.L, rv.L...)
		if sig.Results().Len() == 1 {
			res = rv
			res.T = rt
		}
	}
	se2 := &SpecEnv{e: e, st: st, old: pre, fr: cfr, vars: post, env: env, pkg: c.Pkg, tnames: tnames}
	e.bindLets(c, se2)
	for _, en := range c.Ensures {
		st.Assume(e.evalBool(en.E, se2))
	}
	e.assumeMapWF(st)
	k(st, fr, res)
}

// ---------------------------------------------------------------------------
// the spec loop for Range(f): for each key of the ranged abstract map, exactly once, in an unspecified
// order, call f; stop at the first false. The invariant comes from the calling function's contract
// (`rangecall N invariant ...`, N = ordinal of the Range call in source order).

type specIter struct {
	ord     int
	visited Term
	count   Term
}

func (e *Engine) rangeCallOrdinal(fr *Frame, pos string) int {
	// ordinal among all Range-like calls of the root function and its closures, by source position
	root := fr
	for root.parent != nil && root.parent.fn != nil {
		root = root.parent
	}
	return -1
}

func (e *Engine) rangeCallSites(fn *ssa.Function) []token.Pos {
	var out []token.Pos
	var walk func(f *ssa.Function)
	seen := map[*ssa.Function]bool{}
	walk = func(f *ssa.Function) {
		if seen[f] {
			return
		}
		seen[f] = true
		for _, b := range f.Blocks {
			for _, in := range b.Instrs {
				ci, ok := in.(ssa.CallInstruction)
				if !ok {
					continue
				}
				cc := ci.Common()
				name := ""
				if cc.IsInvoke() {
					name = ifaceKey(cc.Value.Type(), cc.Method)
				} else if callee, ok := cc.Value.(*ssa.Function); ok {
					name = e.contractKey(callee)
				}
				if c, ok := e.cs.Funcs[name]; ok && (c.Mode == "rangeloop" || c.Mode == "seqloop") {
					out = append(out, in.Pos())
				}
			}
		}
		for _, af := range f.AnonFuncs {
			walk(af)
		}
	}
	walk(fn)
	sort.Slice(out, func(i, j int) bool { return out[i] < out[j] })
	return out
}

func (e *Engine) rangeLoop(st *State, fr *Frame, c *Contract, key string, vars map[string]Val, args []Val, pos string, k callCont) {
	if len(c.Extra["rangemap"]) == 0 {
		panic(unsupported("%s: mode rangeloop needs `opt rangemap <expr>`", key))
	}
	ex, err := ParseSpecExpr(c.Extra["rangemap"][0])
	if err != nil {
		panic(unsupported("rangemap: %v", err))
	}
	callEnv := &SpecEnv{e: e, st: st, old: st, fr: fr, vars: vars, env: fr.env, pkg: c.Pkg}
	mv := e.evalSpec(ex, callEnv)
	mi := e.mapInfo(mv.T)
	e.touchMap(st, mi)
	fnv := args[len(args)-1]
	// which rangecall of the root contract is this?
	rootFn := e.root
	sites := e.rangeCallSites(bodyOf(rootFn))
	ord := -1
	for i, p := range sites {
		if posOf(bodyOf(rootFn), p) == pos || fmt.Sprintf("L%d", e.prog.Fset.Position(p).Line) == pos {
			ord = i
		}
	}
	var ls *LoopSpec
	if e.rootC != nil && e.rootC.RangeCalls != nil {
		ls = e.rootC.RangeCalls[ord]
	}
	if ls == nil {
		panic(unsupported("Range call %d (%s at %s) of %s has no `rangecall %d invariant`", ord, key, pos, e.funcName, ord))
	}
	it := &specIter{ord: ord}
	it.visited = T(ArrSort(mi.ksort, SBool), "((as const %s) false)", ArrSort(mi.ksort, SBool))
	it.count = IntLit(0)
	st.specIters = append(st.specIters[:len(st.specIters):len(st.specIters)], it)
	depthIdx := len(st.specIters) - 1
	invEnv := func(s *State) *SpecEnv {
		se := e.specEnv(s, e.entry, e.rootFr)
		se.preferNames = true
		se.frNames = fr
		return se
	}
	assertInv := func(s *State, kind string) {
		for i, cl := range ls.Inv {
			lab := cl.Label
			if lab == "" {
				lab = fmt.Sprintf("rangecall%d.%d", ord, i)
			} else {
				lab = fmt.Sprintf("rangecall%d.%s", ord, lab)
			}
			e.obligation(s, kind, lab, e.evalBool(cl.E, invEnv(s)), cl.Src)
		}
		e.checkFrame(s, kind+"-frame")
	}
	for _, h := range ls.Hints {
		st.Assume(e.evalBool(h.E, invEnv(st)))
	}
	assertInv(st, "inv-entry")
	// havoc what the callback may write
	w := &writeSet{cells: map[*ssa.Alloc]bool{}, sliceElems: map[string]types.Type{}, objRoots: map[string]types.Type{}, visited: map[*ssa.Function]bool{}}
	if fnv.Fn != nil && fnv.Fn.Fn != nil {
		cfr := &Frame{fn: bodyOf(fnv.Fn.Fn), free: fnv.Fn.Bindings, env: fnv.Fn.Env}
		e.scanFuncWrites(cfr, fnv.Fn.Fn, w, fnv.Fn.Env)
	} else {
		w.anyCall = true
	}
	e.havocWriteSet(st, fr, w)
	nit := *it
	nit.visited = e.ctx.Fresh("rvisited", it.visited.Sort)
	nit.count = e.ctx.Fresh("rniter", SInt)
	st.Assume(Le(IntLit(0), nit.count))
	st.specIters = append(st.specIters[:depthIdx:depthIdx], &nit)
	for _, cl := range ls.Inv {
		st.Assume(e.evalBool(cl.E, invEnv(st)))
	}
	for _, h := range ls.Hints {
		st.Assume(e.evalBool(h.E, invEnv(st)))
	}
	st.Assume(e.frameFormula(st))
	st.path = append(st.path, fmt.Sprintf("R%d.", ord))
	dom := Select(e.mapDom(st, mi), mv.L[0])
	pop := func(s *State) {
		s.specIters = s.specIters[:depthIdx:depthIdx]
	}
	// exhausted: every member has been visited
	{
		s2 := st.Clone()
		fr2 := fr.cloneForPath()
		s2.Assume(T(SBool, "(forall ((q_k %s)) (! (=> (select %s q_k) (select %s q_k)) :pattern ((select %s q_k))))", mi.ksort, dom.S, nit.visited.S, dom.S))
		s2.Assume(T(SBool, "(forall ((q_k %s)) (! (=> (select %s q_k) (select %s q_k)) :pattern ((select %s q_k))))", mi.ksort, nit.visited.S, dom.S, nit.visited.S))
		s2.Assume(Eq(nit.count, Select(e.mapCardHeap(s2, mi), mv.L[0])))
		s2.path = append(s2.path, "x")
		s2.ghost["rangedone"] = mkBool(True)
		// the iterator stays readable for the code after the call (final visited set and count)
		s2.lastIter = &nit
		pop(s2)
		k(s2, fr2, Val{T: types.NewTuple()})
	}
	// one more member
	{
		key := e.freshVal("rkey", mi.key)
		st.Assume(Select(dom, key.L[0]))
		st.Assume(Not(Select(nit.visited, key.L[0])))
		cur := nit
		cur.visited = e.nameTerm(st, "rvisited", Store(nit.visited, key.L[0], True))
		cur.count = Add(nit.count, IntLit(1))
		st.specIters = append(st.specIters[:depthIdx:depthIdx], &cur)
		cbArgs := []Val{key}
		if sigOf(fnv) != nil && sigOf(fnv).Params().Len() == 2 {
			val := e.mapValueAt(st, mv, key)
			cbArgs = append(cbArgs, val)
		}
		st.path = append(st.path, "n")
		e.callValueT(st, fr, nil, fnv, cbArgs, types.Typ[types.Bool], pos, func(s3 *State, fr3 *Frame, res Val) {
			// callback said stop
			s4 := s3.Clone()
			fr4 := fr3.cloneForPath()
			s4.Assume(Not(res.L[0]))
			s4.path = append(s4.path, "s")
			s4.lastIter = s4.specIters[depthIdx]
			pop(s4)
			k(s4, fr4, Val{T: types.NewTuple()})
			// continue: the invariant is re-established
			s3.Assume(res.L[0])
			assertInv(s3, "inv-preserve")
			e.paths++
		})
	}
}

func sigOf(v Val) *types.Signature {
	if v.T == nil {
		return nil
	}
	s, _ := v.T.Underlying().(*types.Signature)
	return s
}

// seqLoop: the spec loop standing for a call of a walker with a concrete callback: for i = 0 .. len-1, in
// order, call f(at(i)). `opt seqlen` / `opt seqat` of the walker's contract give the sequence (proved for the
// walker itself through its call-log postcondition); the invariant comes from `rangecall N` of the caller.
func (e *Engine) seqLoop(st *State, fr *Frame, c *Contract, key string, vars map[string]Val, args []Val, pos string, k callCont) {
	if len(c.Extra["seqlen"]) == 0 || len(c.Extra["seqat"]) == 0 {
		panic(unsupported("%s: mode seqloop needs opt seqlen and opt seqat", key))
	}
	lenX, err := ParseSpecExpr(c.Extra["seqlen"][0])
	if err != nil {
		panic(unsupported("seqlen: %v", err))
	}
	atX, err := ParseSpecExpr(c.Extra["seqat"][0])
	if err != nil {
		panic(unsupported("seqat: %v", err))
	}
	fnv := args[len(args)-1]
	sites := e.rangeCallSites(bodyOf(e.root))
	ord := -1
	for i, p := range sites {
		if fmt.Sprintf("L%d", e.prog.Fset.Position(p).Line) == pos {
			ord = i
		}
	}
	var ls *LoopSpec
	if e.rootC != nil && e.rootC.RangeCalls != nil {
		ls = e.rootC.RangeCalls[ord]
		if ls == nil && ord == -1 && len(e.rootC.RangeCalls) == 1 {
			// the call sits in a synthetic wrapper (a bound method value): the function's only rangecall
			for o, l := range e.rootC.RangeCalls {
				ord, ls = o, l
			}
		}
	}
	if ls == nil {
		panic(unsupported("walker call %d (%s at %s) of %s has no `rangecall %d invariant`", ord, key, pos, e.funcName, ord))
	}
	calleeEnv := func(s *State) *SpecEnv {
		return &SpecEnv{e: e, st: s, old: s, fr: fr, vars: vars, env: fr.env, pkg: c.Pkg}
	}
	// requires of the walker
	for i, r := range c.Requires {
		g := e.evalBool(r.E, calleeEnv(st))
		e.obligation(st, "call-pre", fmt.Sprintf("%s.%d@%s", key, i, pos), g, r.Src)
		st.Assume(g)
	}
	it := &specIter{ord: ord, count: IntLit(0), visited: Term{"((as const (Array Int Bool)) false)", ArrSort(SInt, SBool)}}
	depthIdx := len(st.specIters)
	st.specIters = append(st.specIters[:depthIdx:depthIdx], it)
	invEnv := func(s *State) *SpecEnv {
		se := e.specEnv(s, e.entry, e.rootFr)
		se.preferNames = true
		se.frNames = fr
		return se
	}
	assertInv := func(s *State, kind string) {
		for _, o := range ls.Owns {
			pv := e.evalSpec(o.E, invEnv(s))
			if od := e.isOwnedPtr(pv.T); od != nil {
				e.closeChunk(s, od, pv.L[0], pv.T.Underlying().(*types.Pointer).Elem(), kind+" "+o.Src)
			}
		}
		for i, cl := range ls.Inv {
			lab := cl.Label
			if lab == "" {
				lab = fmt.Sprintf("rangecall%d.%d", ord, i)
			} else {
				lab = fmt.Sprintf("rangecall%d.%s", ord, lab)
			}
			e.obligation(s, kind, lab, e.evalBool(cl.E, invEnv(s)), cl.Src)
		}
		e.checkFrame(s, kind+"-frame")
	}
	for _, h := range ls.Hints {
		st.Assume(e.evalBool(h.E, invEnv(st)))
	}
	assertInv(st, "inv-entry")
	// the loop's own structures are given up at the loop head and re-acquired below
	for _, o := range ls.Owns {
		pv := e.evalSpec(o.E, invEnv(st))
		if od := e.isOwnedPtr(pv.T); od != nil {
			e.consumeBelow(st, od, pv.L[0], pv.T.Underlying().(*types.Pointer).Elem(), 0)
		}
	}
	w := &writeSet{cells: map[*ssa.Alloc]bool{}, sliceElems: map[string]types.Type{}, objRoots: map[string]types.Type{}, visited: map[*ssa.Function]bool{}}
	if fnv.Fn != nil && fnv.Fn.Fn != nil {
		cfr := &Frame{fn: bodyOf(fnv.Fn.Fn), free: fnv.Fn.Bindings, env: fnv.Fn.Env}
		e.scanFuncWrites(cfr, fnv.Fn.Fn, w, fnv.Fn.Env)
		// a bound method value: its receiver cell is written through the method's assigns clause
		for _, b := range fnv.Fn.Bindings {
			if b.P != nil && b.P.Kind == LocCell {
				w.freeCells = append(w.freeCells, b)
			}
		}
	} else {
		w.anyCall = true
	}
	e.havocWriteSet(st, fr, w)
	nit := *it
	nit.count = e.ctx.Fresh("sniter", SInt)
	st.Assume(Le(IntLit(0), nit.count))
	st.specIters = append(st.specIters[:depthIdx:depthIdx], &nit)
	for _, o := range ls.Owns {
		pv := e.evalSpec(o.E, invEnv(st))
		if od := e.isOwnedPtr(pv.T); od != nil {
			e.addTree(st, od, pv.L[0], e.freshTree(st, od, "loopowned"))
		}
	}
	for _, cl := range ls.Inv {
		st.Assume(e.evalBool(cl.E, invEnv(st)))
	}
	for _, h := range ls.Hints {
		st.Assume(e.evalBool(h.E, invEnv(st)))
	}
	st.Assume(e.frameFormula(st))
	st.path = append(st.path, fmt.Sprintf("S%d.", ord))
	n := e.evalSpec(lenX, calleeEnv(st)).L[0]
	st.Assume(Le(nit.count, n))
	pop := func(s *State) { s.specIters = s.specIters[:depthIdx:depthIdx] }
	{
		s2 := st.Clone()
		fr2 := fr.cloneForPath()
		s2.Assume(Eq(nit.count, n))
		s2.path = append(s2.path, "x")
		s2.lastIter = &nit
		pop(s2)
		k(s2, fr2, Val{T: types.NewTuple()})
	}
	{
		st.Assume(Lt(nit.count, n))
		elem := e.evalSpec(atX, calleeEnv(st).with("i", mkInt(nit.count)))
		cur := nit
		cur.count = Add(nit.count, IntLit(1))
		st.specIters = append(st.specIters[:depthIdx:depthIdx], &cur)
		st.path = append(st.path, "n")
		e.callValueT(st, fr, nil, fnv, []Val{elem}, types.NewTuple(), pos, func(s3 *State, fr3 *Frame, _ Val) {
			assertInv(s3, "inv-preserve")
			e.paths++
		})
	}
}
