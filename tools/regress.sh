#!/bin/bash
# Runs the quick check of every claimed property on /repo; prints one line each.
cd "$(dirname "$0")/.."
for id in $(python3 -c "import json;print(' '.join(c['property_id'] for c in json.load(open('MANIFEST.json'))['checks']))"); do
  out=$(bin/check $id quick 2>&1); rc=$?
  echo "$id rc=$rc $(echo "$out" | grep '^property' | tail -1)"
  [ $rc -ne 0 ] && echo "$out" | grep -E "FAILED|VIOLATION|ERROR|panic" | head -5
done
exit 0
