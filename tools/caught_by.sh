#!/bin/bash
# Regenerates seeded/CAUGHT_BY.txt: for every stored seeded change, the property check that is run against it and the
# obligations (or "outside the modelled subset" reports) that fail, path suffixes stripped. usage: tools/caught_by.sh [-j N]
J=8; [ "$1" = "-j" ] && { J=$2; shift 2; }
export GOFLAGS=-mod=mod GOPROXY=off GOSUMDB=off GOTOOLCHAIN=local
one() {
  d=$1; name=$(basename $d); prop=${name%%-*}
  D=$(mktemp -d /tmp/ff.XXXXXX); rsync -a --exclude .git /repo/ $D/; (cd $D && patch -p1 -s < $d/patch.diff >/dev/null 2>&1)
  out=$(/verif/bin/govc check $prop -repo $D -no-evidence 2>&1); rm -rf $D
  n=$(echo "$out" | grep -c '^VIOLATION')
  echo "$name | check $prop | $n violation lines | $(echo "$out" | grep '^FAILED' | sed 's/^FAILED //; s/: obligation failed.*//; s/: outside the modelled subset.*/ (outside the modelled subset)/; s/: vacuity guard failed.*//' | sed 's,/[a-zA-Z0-9.~!@]*$,,' | sort -u | head -8 | tr '\n' ';' | sed 's/;$//; s/;/; /g')"
}
export -f one
ls -d /verif/seeded/*/ | sed 's,/$,,' | xargs -P $J -I{} bash -c 'one {}' | sort > /verif/seeded/CAUGHT_BY.txt
wc -l /verif/seeded/CAUGHT_BY.txt
