#!/bin/bash
# Must-PASS corpus: semantics-preserving edits (harmless/*.diff) applied to a scratch copy of /repo; the property's
# quick check must stay silent (no VIOLATION). harmless/residual/*.diff are harmless edits the checks are KNOWN to
# report (a new loop without an invariant): listed for information, they do not fail this script.
# usage: tools/harmless_selftest.sh [-j N]
J=6; [ "$1" = "-j" ] && { J=$2; shift 2; }
export GOFLAGS=-mod=mod GOPROXY=off GOSUMDB=off GOTOOLCHAIN=local
run_one() {
  f=$1; name=$(basename $f .diff); prop=${name%%-*}
  D=$(mktemp -d /tmp/harmless.XXXXXX); rsync -a --exclude .git /repo/ $D/
  if ! (cd $D && patch -p1 -s < $f >/dev/null 2>&1); then echo "$name PATCH-DOES-NOT-APPLY"; rm -rf $D; return; fi
  (cd $D && go build ./... >/dev/null 2>&1 && go test -vet=off -count=1 ./... >/dev/null 2>&1) || { echo "$name BUILD-OR-TESTS-FAIL"; rm -rf $D; return; }
  out=$(/verif/bin/govc check $prop -repo $D -no-evidence 2>&1); rm -rf $D
  tag=FALSE-ALARM; case $f in */residual/*) tag=RESIDUAL-ALARM;; esac
  if echo "$out" | grep -q "^VIOLATION"; then echo "$name $tag: $(echo "$out" | grep -m1 FAILED | cut -c1-160)"; else echo "$name silent"; fi
}
export -f run_one
ls /verif/harmless/*.diff /verif/harmless/residual/*.diff | xargs -P $J -I{} bash -c 'run_one {}' | sort | tee /tmp/harmless.out
grep -c silent /tmp/harmless.out
grep " FALSE-ALARM\|PATCH-DOES\|BUILD-OR" /tmp/harmless.out && exit 1
exit 0
