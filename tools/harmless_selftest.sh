#!/bin/bash
# Must-PASS corpus: semantics-preserving edits (harmless/*.diff) applied to a scratch copy of /repo; the property's
# quick check must stay silent (no VIOLATION).
export GOFLAGS=-mod=mod GOPROXY=off GOSUMDB=off GOTOOLCHAIN=local
bad=0
for f in /verif/harmless/*.diff; do
  name=$(basename $f .diff); prop=${name%%-*}
  D=$(mktemp -d /tmp/harmless.XXXXXX); rsync -a --exclude .git /repo/ $D/
  if ! (cd $D && patch -p1 -s < $f >/dev/null 2>&1); then echo "$name PATCH-DOES-NOT-APPLY"; bad=1; rm -rf $D; continue; fi
  (cd $D && go build ./... >/dev/null 2>&1 && go test -vet=off -count=1 ./... >/dev/null 2>&1) || { echo "$name BUILD-OR-TESTS-FAIL"; bad=1; rm -rf $D; continue; }
  out=$(/verif/bin/govc check $prop -repo $D -no-evidence 2>&1); rm -rf $D
  if echo "$out" | grep -q "^VIOLATION"; then echo "$name FALSE-ALARM: $(echo "$out" | grep -m1 FAILED | cut -c1-160)"; bad=1; else echo "$name silent"; fi
done
exit $bad
