#!/usr/bin/env python3
"""Regenerates /verif/MANIFEST.json from tools/claims.json (the per-property claim table)."""
import json, os, subprocess
here = os.path.dirname(os.path.dirname(os.path.abspath(__file__)))
props = [json.loads(l) for l in open(os.path.join(here, 'properties.jsonl'))]
claims = json.load(open(os.path.join(here, 'tools', 'claims.json')))
hooks = subprocess.run(['git', '-C', '/repo', 'log', '--format=%H %s'], capture_output=True, text=True).stdout.splitlines()
hook_commits = [l.split()[0] for l in hooks if ' verif hook' in l]
checks = []
na = []
for p in props:
    c = claims.get(p['id'])
    if not c or not c.get('claimed'):
        reason = (c or {}).get('reason', "within the family's reach per DESIGN.md, not built yet")
        na.append({"property_id": p['id'], "reason": reason})
        continue
    checks.append({
        "property_id": p['id'],
        "quick_cmd": "bin/check %s quick" % p['id'],
        "thorough_cmd": "bin/check %s thorough" % p['id'],
        "evidence_file": "/verif/evidence/%s.json" % p['id'],
        "replay_cmd_template": "cat {path}",
        "engine": "govc",
        "level_claimed": {"category": "proof", "text": c['text'], "design_ref": c.get('design_ref', 'DESIGN.md §3 ' + p['id'])},
        "level_note": c['note'],
        "technique": c.get('technique', "contract-based deductive verification: weakest-precondition style VCs generated from go/ssa of the real code against contracts in guarded comment files, discharged by z3/cvc5"),
    })
m = {
    "version": 1,
    "setup_cmd": "bin/setup",
    "hooks": {
        "guard": "verif",
        "enable": "govc loads /repo with go/packages BuildFlags -tags=verif; the only hook files are comment-only contract files <pkg>/zz_contracts_verif.go (//go:build verif)",
        "baseline_off_cmd": "cd /repo && GOFLAGS=-mod=mod GOPROXY=off GOSUMDB=off GOTOOLCHAIN=local go test -vet=off -count=1 ./...",
        "source_commits": hook_commits,
        "add_only": True,
    },
    "engines": [{"name": "govc", "path": "/verif/engine", "serves_properties": [c['property_id'] for c in checks],
                 "kind_free_text": "VC generator for Go written for this task: symbolic execution of go/ssa with loops cut at invariants and calls replaced by contracts; obligations discharged by z3 5.1.0 / z3 4.8.12 / cvc5 1.0.3; failed obligations replayed on the real code through go test -overlay oracles"}],
    "checks": checks,
    "notes": "See DESIGN.md. Every check reloads /repo's working tree. KNOWN_FINDINGS.txt lists recorded findings and repaired defects.",
    "not_applicable": na,
}
json.dump(m, open(os.path.join(here, 'MANIFEST.json'), 'w'), indent=1)
subprocess.run(["/verif/bin/govc","names"],cwd="/repo")  # baseline of variable lists for rename tolerance (names.json)
print("claimed:", [c['property_id'] for c in checks])
