#!/bin/bash
rm -f /tmp/stress_rc.log
for seed in 2 3; do
  pids=""
  for id in C01 C02 C03 C05 C06 C07 C08 C09 C10 C11 C12 C13 C14 C15 C16 C17 C18 C19 C20; do
    ( VERIF_SEED=$seed /verif/bin/govc check $id -no-evidence > /tmp/stress_${seed}_$id.log 2>&1; echo "$id seed=$seed rc=$?" >> /tmp/stress_rc.log ) &
  done
  wait
done
sort /tmp/stress_rc.log | grep -v "rc=0"
echo "--- failures:"
grep -h "FAILED" /tmp/stress_*.log | cut -c1-160
echo "--- slowest walls:"
grep -h "^property" /tmp/stress_*.log | sed 's/.*property \(C[0-9]*\).*wall \([0-9.]*\)s.*/\2 \1/' | sort -rn | head -5
