#!/bin/bash
# usage: tools/mutcheck.sh <prop> <file relative to repo> <python-regex-from> <to>   (one-off mutation in a scratch copy)
PROP=$1; FILE=$2; FROM=$3; TO=$4
D=$(mktemp -d /tmp/mut.XXXXXX)
rsync -a --exclude .git /repo/ $D/
python3 - "$D/$FILE" "$FROM" "$TO" <<'PY'
import sys
p,f,t=sys.argv[1:4]
s=open(p).read()
if f not in s: print("MUTATION SOURCE NOT FOUND"); sys.exit(1)
open(p,'w').write(s.replace(f,t,1))
PY
[ $? -ne 0 ] && { rm -rf $D; exit 1; }
(cd $D && GOFLAGS=-mod=mod GOPROXY=off GOSUMDB=off GOTOOLCHAIN=local go build ./... 2>&1 | head -3)
/verif/bin/govc check $PROP -repo $D -no-evidence 2>&1 | grep -E "replayed|VIOLATION|^property" | sed "s,$D,<scratch>,g" | cut -c1-220
rm -rf $D
