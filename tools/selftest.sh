#!/bin/bash
# Must-fail corpus: every stored seeded change (seeded/*/patch.diff) is applied to a scratch copy of /repo and the
# property's quick check must report a VIOLATION. Prints one line per seed; exit 1 if a seed expected to be caught is not.
# usage: tools/selftest.sh [-j N] [name-prefix]
J=6; [ "$1" = "-j" ] && { J=$2; shift 2; }
PFX=${1:-}
export GOFLAGS=-mod=mod GOPROXY=off GOSUMDB=off GOTOOLCHAIN=local
run_one() {
  d=$1; name=$(basename $d); prop=${name%%-*}
  D=$(mktemp -d /tmp/selftest.XXXXXX)
  rsync -a --exclude .git /repo/ $D/
  if ! (cd $D && patch -p1 -s < $d/patch.diff >/dev/null 2>&1); then echo "$name PATCH-DOES-NOT-APPLY"; rm -rf $D; return; fi
  out=$(timeout 900 /verif/bin/govc check $prop -repo $D -no-evidence 2>&1)
  rm -rf $D
  if echo "$out" | grep -q "^VIOLATION"; then
    r=no; echo "$out" | grep -q "replayed on the real code\|^BOUNDED.*under concurrent use (\|^BOUNDED.*String() =\|^BOUNDED.*the code under test crashed" && r=yes
    echo "$name caught replayed=$r"
  else
    echo "$name MISSED"
  fi
}
export -f run_one
ls -d /verif/seeded/${PFX}*/ | sed "s:/$::" | xargs -P $J -I{} bash -c 'run_one {}' | sort | tee /tmp/selftest.out
grep -c caught /tmp/selftest.out
grep "MISSED\|PATCH-DOES" /tmp/selftest.out && exit 1
exit 0
