#!/bin/bash
# usage: tools/confirm_seed.sh <property> <seed dir with patch.diff demo_test.go notes.md> <name>
# Confirms in a scratch worktree of /repo (HEAD) that: the patch applies, the full suite passes with it,
# the demo fails with it and passes without it; runs the property's check against the patched scratch tree;
# then stores everything under /verif/seeded/<name>/.
set -u
export GOFLAGS=-mod=mod GOPROXY=off GOSUMDB=off GOTOOLCHAIN=local
PROP="$1"; SRC="$2"; NAME="$3"
WT=$(mktemp -d /tmp/seedwt.XXXXXX); rmdir "$WT"
git -C /repo worktree add -q --detach "$WT" HEAD || exit 2
trap 'git -C /repo worktree remove --force "$WT" >/dev/null 2>&1; rm -rf "$WT"' EXIT
DEMO="$SRC/demo_test.go"
DIR=$(head -1 "$DEMO" | sed -n 's,^// dir: *,,p' | awk '{print $1}'); DIR=${DIR:-.}
cd "$WT"
cp "$DEMO" "$DIR/zz_seed_demo_test.go"
CLEAN=$(go test -vet=off -count=1 -run 'Seed|Demo|Test' "./$DIR" 2>&1 | tail -3); CLEAN_RC=$?
go test -vet=off -count=1 "./$DIR" >/tmp/seed_clean.log 2>&1; CLEAN_RC=$?
rm "$DIR/zz_seed_demo_test.go"
if ! git apply "$SRC/patch.diff" 2>/tmp/seed_apply.log; then echo "PATCH DOES NOT APPLY: $(cat /tmp/seed_apply.log)"; exit 3; fi
go build ./... >/tmp/seed_build.log 2>&1; BUILD_RC=$?
go test -vet=off -count=1 ./... >/tmp/seed_suite.log 2>&1; SUITE_RC=$?
cp "$DEMO" "$DIR/zz_seed_demo_test.go"
go test -vet=off -count=1 "./$DIR" >/tmp/seed_demo.log 2>&1; DEMO_RC=$?
rm "$DIR/zz_seed_demo_test.go"
CHECK_OUT=$(${GOVC:-/verif/bin/govc} check "$PROP" -repo "$WT" -no-evidence 2>&1 | grep -E "VIOLATION|replayed|^property|ERROR" | sed "s,$WT,<scratch>,g")
echo "$CHECK_OUT" | grep -q VIOLATION && DETECTED=true || DETECTED=false
echo "clean-tree demo rc=$CLEAN_RC  build rc=$BUILD_RC  suite-with-change rc=$SUITE_RC  demo-with-change rc=$DEMO_RC  detected=$DETECTED"
echo "$CHECK_OUT" | tail -4
if [ $CLEAN_RC -ne 0 ] || [ $BUILD_RC -ne 0 ] || [ $SUITE_RC -ne 0 ] || [ $DEMO_RC -eq 0 ]; then echo "NOT CONFIRMED"; tail -5 /tmp/seed_clean.log /tmp/seed_suite.log /tmp/seed_demo.log; exit 4; fi
OUT=/verif/seeded/$NAME; mkdir -p "$OUT"
cp "$SRC/patch.diff" "$OUT/patch.diff"; cp "$DEMO" "$OUT/demo_test.go"; [ -f "$SRC/notes.md" ] && cp "$SRC/notes.md" "$OUT/notes.md"
python3 - "$PROP" "$NAME" "$DETECTED" "$OUT" "$DIR" <<PY
import json,sys
prop,name,det,out,d=sys.argv[1:6]
notes=open(out+'/notes.md').read() if __import__('os').path.exists(out+'/notes.md') else ''
check=open('/dev/stdin').read() if False else ''
meta={"property":prop,"name":name,"breaks":prop,"demo_package_dir":d,
 "needs_to_manifest":notes,
 "confirmed_by_me":{"repo_commit":"$(git -C /repo rev-parse --short HEAD)","patch_applies":True,"build_with_change":"ok","full_suite_with_change":"pass (go test -vet=off -count=1 ./...)","demo_with_change":"FAIL","demo_without_change":"pass"},
 "ran":["git apply patch.diff (scratch worktree of /repo HEAD)","go build ./...","go test -vet=off -count=1 ./...","go test -vet=off -count=1 ./"+d+" with demo_test.go copied in (with and without the change)","${GOVC:-/verif/bin/govc} check "+prop+" -repo <scratch>"],
 "detected_by_check":det=="true",
 "check_output":"""$CHECK_OUT"""}
json.dump(meta,open(out+'/meta.json','w'),indent=1)
PY
echo "stored $OUT"
