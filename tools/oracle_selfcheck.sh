#!/bin/bash
# Runs every package's replay oracle on the UNCHANGED /repo for every function under contract (empty model):
# an oracle that reports REPLAY-FAIL on correct code would turn a failed obligation into a false "replayed" claim.
export GOFLAGS=-mod=mod GOPROXY=off GOSUMDB=off GOTOOLCHAIN=local
cd /repo
bad=0
for pkg in typ slices arrays maps lists sets sync2 avl chans; do
  dir=$pkg; [ $pkg = typ ] && dir=.
  [ -f /verif/replay/$pkg.go.txt ] || continue
  D=$(mktemp -d)
  cat /verif/replay/$pkg.go.txt /verif/replay/common.go.txt > $D/t.go
  echo "{\"Replace\":{\"/repo/$dir/zz_verif_replay_test.go\":\"$D/t.go\"}}" > $D/ov.json
  if ! go test -overlay $D/ov.json -vet=off -c -o $D/t.bin ./$dir 2>$D/err; then echo "$pkg: oracle does not compile: $(head -3 $D/err)"; bad=1; rm -rf $D; continue; fi
  funcs=$(grep -h "^func " $dir/zz_contracts_verif.go 2>/dev/null | sed 's/^func //; s/#.*//; s/(.*//' | sort -u)
  n=0
  for f in $funcs; do
    out=$(cd $dir && VERIF_REPLAY="{\"func\":\"$f\",\"obligation\":\"selfcheck\",\"model\":{}}" timeout 120 $D/t.bin -test.run '^TestVerifReplay$' -test.timeout 100s 2>&1)
    if echo "$out" | grep -q "REPLAY-FAIL\|panic:\|DATA RACE"; then echo "$pkg $f: $(echo "$out" | grep -m1 'REPLAY-FAIL\|panic:\|DATA RACE')"; bad=1; fi
    n=$((n+1))
  done
  echo "$pkg: $n functions checked"
  rm -rf $D
done
exit $bad
